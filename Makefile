# Build of the simulation harness and of the votca sources it runs, straight
# from /repo's working tree.  Nothing is taken from /repo/_build.
#   make CFG=plain|san  [engines...]
REPO ?= $(if $(VERIF_REPO),$(VERIF_REPO),/repo)
CFG  ?= plain
# the directory this Makefile lives in (normally /verif; a snapshot of it when self-tests run in the background)
V    := $(patsubst %/,%,$(dir $(abspath $(lastword $(MAKEFILE_LIST)))))
B    := $(V)/build/$(CFG)
GEN  := $(V)/build/gen

CXX_plain := g++
CXX_san   := g++
OPT_plain := -O1 -g1
OPT_san   := -O1 -g1 -fsanitize=address,undefined -fno-sanitize-recover=undefined -fno-omit-frame-pointer -DSIM_SAN=1
CXX  := $(CXX_$(CFG))
OPT  := $(OPT_$(CFG))

INC := -I$(GEN) -I$(REPO)/csg/src/csgapps/partial_rdf -I$(REPO)/tools/include -I$(REPO)/csg/include -I$(REPO)/xtp/include \
       -I/usr/include/eigen3 -I/usr/include/hdf5/serial -I$(REPO)/csg/src/libcsg -I$(REPO)/csg/src/libcsg/modules/io \
       -I$(REPO)/csg/src/tools
CXXFLAGS := -std=c++17 $(OPT) -DNDEBUG -w -MMD -MP $(INC)
HARNESS_FLAGS := -std=c++17 $(OPT) -Wall -Wno-unused-function -Wno-unknown-pragmas -MMD -MP $(INC) -I$(V)/sim
LIBS := -lboost_program_options -lboost_filesystem -lboost_system -lboost_regex -lexpat -lfftw3 -ldl -lpthread

# same globs as tools/src/libtools/CMakeLists.txt and csg/src/libcsg/CMakeLists.txt
TOOLS_SRC := $(wildcard $(REPO)/tools/src/libtools/*.cc)
CSG_IO    := $(filter-out $(wildcard $(REPO)/csg/src/libcsg/modules/io/gmx*.cc) \
                          $(wildcard $(REPO)/csg/src/libcsg/modules/io/h5md*.cc), \
                          $(wildcard $(REPO)/csg/src/libcsg/modules/io/*.cc))
CSG_SRC   := $(wildcard $(REPO)/csg/src/libcsg/*.cc $(REPO)/csg/src/libcsg/potentialfunctions/*.cc) $(CSG_IO)

# object names carry the source directory (tools/.../version.cc and csg/.../version.cc collide otherwise)
obj = $(patsubst $(REPO)/%.cc,$(B)/repo/%.o,$(1))
LIB_OBJ := $(call obj,$(TOOLS_SRC) $(CSG_SRC))

WRAP_PTHREAD := pthread_create pthread_join pthread_exit pthread_mutex_init pthread_mutex_destroy \
                pthread_mutex_lock pthread_mutex_unlock pthread_mutex_trylock pthread_self
WRAP_PROC    := getpid gethostname time localtime_r
wrapflags = $(foreach s,$(1),-Wl,--wrap=$(s))

CORE_SRC := $(wildcard $(V)/sim/core/*.cc)
CORE_OBJ := $(patsubst $(V)/sim/%.cc,$(B)/sim/%.o,$(CORE_SRC))

ENGINES := c05_lib c05_stat c05_orient c05_tmpl c05_reupd c05_prdf c10_jobs
.PHONY: all $(ENGINES) gen
all: $(ENGINES)
$(ENGINES): %: $(B)/bin/%

gen: $(GEN)/.stamp
$(GEN)/.stamp: $(V)/Makefile
	@mkdir -p $(GEN)/votca/tools $(GEN)/votca/xtp $(GEN)/votca/csg
	@printf '#ifndef VOTCA_TOOLS_CFG_H\n#define VOTCA_TOOLS_CFG_H\n#define FFTW3_FOUND\n#define TOOLS_VERSION "verif"\n#define TOOLS_BUGREPORT "verif"\n#endif\n' > $(GEN)/votca_tools_config.h
	@cp $(GEN)/votca_tools_config.h $(GEN)/votca/tools/votca_tools_config.h
	@printf '#ifndef VERIF_GITVERSION_H\n#define VERIF_GITVERSION_H\n#include <string>\nstatic const std::string gitversion = "verif";\n#endif\n' > $(GEN)/gitversion.h
	@printf '#ifndef VOTCA_CSG_CFG_H\n#define VOTCA_CSG_CFG_H\n#define PACKAGE_BUGREPORT "verif"\n#endif\n' > $(GEN)/votca_csg_config.h
	@cp $(GEN)/votca_csg_config.h $(GEN)/votca/csg/votca_csg_config.h
	@printf '#ifndef VOTCA_XTP_CFG_H\n#define VOTCA_XTP_CFG_H\n#define VERSION "verif"\n#define PACKAGE_BUGREPORT "verif"\n#endif\n' > $(GEN)/votca_xtp_config.h
	@cp $(GEN)/votca_xtp_config.h $(GEN)/votca/xtp/votca_xtp_config.h
	@touch $@

$(B)/repo/%.o: $(REPO)/%.cc | $(GEN)/.stamp
	@mkdir -p $(dir $@)
	$(CXX) $(CXXFLAGS) -c $< -o $@

$(B)/sim/%.o: $(V)/sim/%.cc | $(GEN)/.stamp
	@mkdir -p $(dir $@)
	$(CXX) $(HARNESS_FLAGS) -c $< -o $@

$(B)/libvotca.a: $(LIB_OBJ)
	@rm -f $@
	ar rcs $@ $^

# thread_local storage of the code under test: every simulated task has its own copy of the executable's static TLS
# block (sim/core/sim.cc), so nothing has to be refused here any more; the objects that use it are listed for the record
define TLS_CHECK
	@for o in $(1); do if readelf -S $$o | grep -q '\.tbss\|\.tdata'; then echo "NOTE thread_local storage in $$o: one copy per simulated task"; fi; done
endef

# ---- tool sources with renamed main ---------------------------------------
$(B)/tool/csg_stat.o: $(REPO)/csg/src/tools/csg_stat.cc | $(GEN)/.stamp
	@mkdir -p $(dir $@)
	$(CXX) $(CXXFLAGS) -Dmain=tool_main -c $< -o $@
$(B)/tool/orientcorr.o: $(REPO)/csg/src/csgapps/orientcorr/orientcorr.cc | $(GEN)/.stamp
	@mkdir -p $(dir $@)
	$(CXX) $(CXXFLAGS) -Dmain=tool_main -c $< -o $@
$(B)/tool/csg_reupdate.o: $(REPO)/csg/src/tools/csg_reupdate.cc | $(GEN)/.stamp
	@mkdir -p $(dir $@)
	$(CXX) $(CXXFLAGS) -Dmain=tool_main -c $< -o $@
# partial_rdf's main() has no return statement (legal for main only): compile the renamed copy
# without optimisation so that flowing off the end cannot be treated as unreachable
$(B)/tool/partial_rdf.o: $(REPO)/csg/src/csgapps/partial_rdf/partial_rdf.cc | $(GEN)/.stamp
	@mkdir -p $(dir $@)
	$(CXX) $(CXXFLAGS) -O0 -fno-sanitize=return -I$(REPO)/csg/src/csgapps/partial_rdf -Dmain=tool_main -c $< -o $@
$(B)/tool/template_threaded.o: $(REPO)/csg/share/template/template_threaded.cc | $(GEN)/.stamp
	@mkdir -p $(dir $@)
	$(CXX) $(CXXFLAGS) -Dmain=tool_main -c $< -o $@

# ---- xtp: three sources compiled stand-alone; parallelxjobcalc.cc is copied
# next to a stub xtp_libint2.h (libint2 is not installed on this image)
$(B)/xtpcopy/parallelxjobcalc.cc: $(REPO)/xtp/src/libxtp/parallelxjobcalc.cc $(V)/sim/c10/xtp_libint2.h
	@mkdir -p $(dir $@)
	cp $(REPO)/xtp/src/libxtp/parallelxjobcalc.cc $@
	cp $(V)/sim/c10/xtp_libint2.h $(dir $@)/xtp_libint2.h
$(B)/xtpcopy/parallelxjobcalc.o: $(B)/xtpcopy/parallelxjobcalc.cc | $(GEN)/.stamp
	$(CXX) $(CXXFLAGS) -c $< -o $@
XTP_OBJ := $(B)/repo/xtp/src/libxtp/progressobserver.o $(B)/repo/xtp/src/libxtp/job.o $(B)/xtpcopy/parallelxjobcalc.o

# ---- engines ---------------------------------------------------------------
# pthread_* are defined by the harness itself (sim/core/wrap_pthread.cc), no --wrap needed for them
C05W :=
C10W := $(call wrapflags,$(WRAP_PROC))

$(B)/bin/c05_lib: $(B)/sim/c05/c05_lib.o $(B)/sim/c05/c05_common.o $(CORE_OBJ) $(B)/libvotca.a
	@mkdir -p $(dir $@)
	$(call TLS_CHECK,$(LIB_OBJ))
	$(CXX) $(OPT) -o $@ $(B)/sim/c05/c05_lib.o $(B)/sim/c05/c05_common.o $(CORE_OBJ) $(B)/libvotca.a $(C05W) $(LIBS)

define TOOL_ENGINE
$(B)/bin/$(1): $(B)/sim/c05/c05_tool.o $(B)/sim/c05/gen_$(1).o $(B)/sim/c05/c05_common.o $(CORE_OBJ) $(2) $(B)/libvotca.a
	@mkdir -p $$(dir $$@)
	$$(call TLS_CHECK,$(2) $(B)/repo/csg/src/libcsg/csgapplication.o $(B)/repo/tools/src/libtools/thread.o $(B)/repo/tools/src/libtools/mutex.o)
	$(CXX) $(OPT) -o $$@ $(B)/sim/c05/c05_tool.o $(B)/sim/c05/gen_$(1).o $(B)/sim/c05/c05_common.o $(CORE_OBJ) $(2) $(B)/libvotca.a $(C05W) $(LIBS)
endef
$(eval $(call TOOL_ENGINE,c05_stat,$(B)/tool/csg_stat.o $(B)/repo/csg/src/tools/csg_stat_imc.o))
$(eval $(call TOOL_ENGINE,c05_orient,$(B)/tool/orientcorr.o))
$(eval $(call TOOL_ENGINE,c05_reupd,$(B)/tool/csg_reupdate.o))
$(eval $(call TOOL_ENGINE,c05_prdf,$(B)/tool/partial_rdf.o $(B)/repo/csg/src/csgapps/partial_rdf/rdf_calculator.o))
$(eval $(call TOOL_ENGINE,c05_tmpl,$(B)/tool/template_threaded.o))

$(B)/bin/c10_jobs: $(B)/sim/c10/c10_jobs.o $(B)/sim/c10/io_interpose.o $(CORE_OBJ) $(XTP_OBJ) $(B)/libvotca.a
	@mkdir -p $(dir $@)
	$(call TLS_CHECK,$(XTP_OBJ) $(B)/repo/tools/src/libtools/thread.o $(B)/repo/tools/src/libtools/mutex.o $(B)/repo/tools/src/libtools/property.o)
	$(CXX) $(OPT) -o $@ $(B)/sim/c10/c10_jobs.o $(B)/sim/c10/io_interpose.o $(CORE_OBJ) $(XTP_OBJ) $(B)/libvotca.a $(C10W) $(LIBS)
	@$(V)/bin/static_guard $(V)/sim/c10/static_whitelist.txt $@ $@.statics $(XTP_OBJ)

-include $(shell find $(B) -name '*.d' 2>/dev/null)
