# Table of claimed properties: engines, run counts per tier, required reach
# probes, evidence texts.  Used by bin/check and bin/selftest.

C05_RULE = (
    "Each evaluation is one seeded simulated run: a plan (thread count 1..8, frame count, --first-frame/--nframes, "
    "ordered/unordered mode, evaluation durations, scheduler strategy rw/sticky/pct) is drawn from VERIF_SEED and the run "
    "index, the real CsgApplication code runs as coroutine tasks and the seeded scheduler picks the next task at every "
    "intercepted pthread call and harness point; the same plan is also run with 1 thread as reference. A run is "
    "non-trivial if at least one decision point had >= 2 runnable tasks; two runs are distinct if their interleaving "
    "shapes differ, the shape being the hash of the sequence (task at the decision point, kind of point, object index, "
    "task chosen next) over all decision points, which does not depend on the random plan values.")

PROPERTIES = {
    'C05': {
        'level': 'exploration',
        'rule': C05_RULE,
        'sim_time_note': 'C05 has no clock: no anchored code reads time; simulated time is not applicable',
        'engines': [
            {'name': 'c05_lib', 'quick': 20000, 'thorough': 3000000, 'san': 200000, 'chunk': 2500,
             'required_probes': ['probe.worker_not0_read_first', 'probe.later_frame_read_during_eval', 'probe.fewer_frames_than_threads',
                                 'probe.eof_seen_by_two', 'probe.three_tasks_blocked']},
        ],
        'components': {
            'real': ['csg/src/libcsg/csgapplication.cc (Run, ProcessData, Worker::Run)', 'tools/src/libtools/thread.cc', 'tools/src/libtools/mutex.cc',
                     'tools/src/libtools/application.cc (Exec, option parsing)', 'csg Topology / factories'],
            'stub': ['c05_lib: application subclass, worker, synthetic .simtop/.simtrj readers are harness code',
                     'pthread_create/join/exit/mutex_*: simulated (tasks = ucontext coroutines, mutex = bit + waiters, glibc default-mutex semantics without owner check)'],
        },
        'assumptions': [
            'threads are created and synchronised only through pthread_* references in statically linked votca objects (checked: the worker process must have exactly one OS thread)',
            'glibc default (non error-checking) mutex semantics: unlock by a non-owner succeeds',
            'only interleavings at intercepted calls and harness points are explored; instruction-level races between unsynchronised plain accesses are out of reach',
            'sampling, not proof: a clean batch bounds confidence by the number of distinct interleavings explored',
        ],
    },
}
