# Table of claimed properties: engines, run counts per tier, required reach
# probes, evidence texts.  Used by bin/check and bin/selftest.

C05_RULE = (
    "Each evaluation is one seeded simulated run: a plan (thread count 1..8, frame count, --first-frame/--nframes, "
    "ordered/unordered mode, evaluation durations, scheduler strategy rw/sticky/pct) is drawn from VERIF_SEED and the run "
    "index, the real CsgApplication code runs as coroutine tasks and the seeded scheduler picks the next task at every "
    "intercepted pthread call and harness point; the same plan is also run with 1 thread as reference. A run is "
    "non-trivial if at least one decision point had >= 2 runnable tasks; two runs are distinct if their interleaving "
    "shapes differ, the shape being the hash of the sequence (task at the decision point, kind of point, object index, "
    "task chosen next) over all decision points, which does not depend on the random plan values. The real-tool engines generate a "
    "small molecular system (4..12 chain molecules, 1..12 frames as LAMMPS dump or GRO, XML topology, options, optional mapping / IMC / "
    "block output) per run and compare all output files of the --nt k run under the seeded schedule with the --nt 1 run.")

C10_RULE = (
    "Each evaluation is one seeded simulated run: a plan (1..24 jobs, optional history of COMPLETE/FAILED/ASSIGNED jobs of a vanished host, "
    "1..5 processes with 1..4 threads, cache 1..5, maxjobs, staggered starts, restart processes joining while others run or after quiescence, "
    "job failures, and in every second plan faults: process kills at arbitrary decision points incl. inside a write() of the job file or backup, "
    "short writes/reads, clock skew and jumps) is drawn from VERIF_SEED and the run index; the real xtp code runs as coroutine tasks grouped into "
    "simulated processes and the seeded scheduler picks the next task at every intercepted pthread / fcntl / file / getpid / time call. A run is "
    "non-trivial if at least one decision point had >= 2 runnable tasks; two runs are distinct if their interleaving shapes differ (hash of the "
    "sequence (task, kind of point, object, task chosen next) over all decision points).")

PROPERTIES = {
    'C05': {
        'level': 'exploration',
        'rule': C05_RULE,
        'sim_time_note': 'C05 has no clock: no anchored code reads time; simulated time is not applicable',
        'engines': [
            {'name': 'c05_lib', 'quick': 20000, 'thorough': 3000000, 'san': 200000, 'chunk': 2500,
             'required_probes': ['probe.worker_not0_read_first', 'probe.later_frame_read_during_eval', 'probe.fewer_frames_than_threads',
                                 'probe.eof_seen_by_two', 'probe.three_tasks_blocked', 'probe.slow_evaluation', 'probe.reader_threw', 'probe.evaluation_threw',
                                 'probe.terminated_like_the_reference']},
            {'name': 'c05_stat', 'quick': 3000, 'thorough': 400000, 'san': 20000, 'chunk': 500,
             'required_probes': ['probe.outputs_compared', 'probe.block_files_written', 'probe.fewer_frames_than_threads', 'probe.three_tasks_blocked', 'probe.eof_seen',
                                 'probe.reader_lammps_dump', 'probe.reader_gro', 'probe.reader_pdb', 'probe.reader_xyz', 'probe.reader_dlpoly_history', 'probe.threebody_distribution_compared', 'probe.terminated_like_the_reference']},
            {'name': 'c05_prdf', 'quick': 1500, 'thorough': 200000, 'san': 10000, 'chunk': 500,
             'required_probes': ['probe.outputs_compared', 'probe.block_files_written', 'probe.three_tasks_blocked',
                                 'probe.topology_from_gro', 'probe.topology_from_pdb', 'probe.topology_from_xyz']},
            {'name': 'c05_tmpl', 'quick': 1000, 'thorough': 100000, 'san': 10000, 'chunk': 500,
             'required_probes': ['probe.outputs_compared', 'probe.three_tasks_blocked']},
            {'name': 'c05_orient', 'quick': 1500, 'thorough': 200000, 'san': 10000, 'chunk': 500,
             'required_probes': ['probe.outputs_compared', 'probe.three_tasks_blocked']},
            {'name': 'c05_reupd', 'quick': 1500, 'thorough': 200000, 'san': 10000, 'chunk': 500,
             'required_probes': ['probe.outputs_compared', 'probe.three_tasks_blocked', 'check.stdout_numbers_compared']},
        ],
        'components': {
            'real': ['csg/src/libcsg/csgapplication.cc (Run, ProcessData, Worker::Run)', 'tools/src/libtools/thread.cc', 'tools/src/libtools/mutex.cc',
                     'tools/src/libtools/application.cc (Exec, option parsing)', 'csg Topology / factories'],
            'real_tools': ['c05_stat: csg/src/tools/csg_stat.cc + csg_stat_imc.cc (ordered)', 'c05_prdf: csg/src/csgapps/partial_rdf/*.cc (ordered)',
                           'c05_tmpl: csg/share/template/template_threaded.cc (ordered)', 'c05_orient: csg/src/csgapps/orientcorr/orientcorr.cc (unordered)',
                           'c05_reupd: csg/src/tools/csg_reupdate.cc (unordered)',
                           'each with its real main() (renamed at compile time), the real XML topology reader (or, for --top, the real GRO / PDB / XYZ topology readers, one reader object used once per worker), mapping, neighbour search and the real LAMMPS dump / GRO / PDB / XYZ / DL_POLY HISTORY trajectory readers behind a decorator that adds enter/leave monitors and decision points'],
            'stub': ['c05_lib: application subclass, worker, synthetic .simtop/.simtrj readers are harness code',
                     'pthread_create/join/exit/mutex_*: simulated (tasks = ucontext coroutines, mutex = bit + waiters, glibc default-mutex semantics without owner check)'],
        },
        'assumptions': [
            'threads are created and synchronised only through pthread_* references in statically linked votca objects (checked: the worker process must have exactly one OS thread)',
            'glibc default (non error-checking) mutex semantics: unlock by a non-owner succeeds',
            'only interleavings at intercepted calls and harness points are explored; instruction-level races between unsynchronised plain accesses are out of reach',
            'sampling, not proof: a clean batch bounds confidence by the number of distinct interleavings explored',
            'real tools: evaluate/merge are observed through the output files (byte-identical in ordered mode; unordered mode: numbers compared to 1e-9 (orientcorr) / 1e-6 (csg_reupdate) only where a perturbed single-thread reference shows them to be well conditioned, csg_reupdate additionally through its printed ensemble averages)',
        ],
    },
    'C10': {
        'level': 'exploration',
        'rule': C10_RULE,
        'sim_time_note': 'simulated clock = 1700000000 + step/20 s + per-process skew (+ jump); only the <time> text of the job file depends on it',
        'engines': [
            {'name': 'c10_jobs', 'quick': 6000, 'thorough': 600000, 'san': 30000, 'chunk': 250, 'det_sample': 40,
             'required_probes': ['probe.two_processes_alive', 'probe.kill_while_holding_file_lock', 'probe.jobfile_torn_by_kill',
                                 'probe.operator_restored_backup', 'probe.survivor_aborted_on_torn_file',
                                 'probe.restart_reopened_while_other_alive', 'probe.short_write_split_jobfile', 'probe.maxjobs_reached',
                                 'probe.sync_without_new_job', 'fault.kill_in_write_jobfile', 'fault.kill_in_write_backup',
                                 'fault.kill_at_fopen', 'fault.kill_at_funlock', 'fault.kill_at_mutex', 'fault.stall', 'fault.sigterm_default_action',
                                 'probe.alloc_points_enabled', 'probe.nested_output_published', 'probe.sweeper_killed', 'probe.restart_process_killed', 'probe.nested_output_rewritten_by_other_process']},
            # crash-point enumeration: one "run" is a small base plan plus one sub-run per crash point along its schedule
            {'name': 'c10_jobs', 'label': 'c10_jobs/enum', 'engine_tier': 'enum', 'quick': 48, 'thorough': 6000, 'san': 0, 'chunk': 1, 'det_sample': 2,
             'required_probes': ['enum.crash_points', 'enum.kill_inside_write', 'probe.jobfile_torn_by_kill', 'probe.operator_restored_backup']},
        ],
        'components': {
            'real': ['xtp/src/libxtp/progressobserver.cc', 'xtp/src/libxtp/job.cc', 'xtp/src/libxtp/parallelxjobcalc.cc (Evaluate, JobOperator::Run; compiled from a copy next to a stub xtp_libint2.h)',
                     'xtp/include/votca/xtp/qmthread.h, logger.h', 'boost::interprocess::file_lock (real header code; its syscalls are simulated)',
                     'tools::Property XML load/print (expat)', 'tools::Thread / tools::Mutex', 'libstdc++ file streams (real; write/read/fopen/fclose reach the simulated file layer)'],
            'stub': ['job calculator: EvalJob returns a unique token after plan-chosen decision points, COMPLETE or plan-chosen FAILED',
                     'libint2::initialize/finalize: empty', 'xtp::Topology: never dereferenced', 'xtp_parallel option parsing: a boost variables_map filled by the harness',
                     'open/close/fcntl record locks, getpid, gethostname, time, localtime_r: simulated per simulated process',
                     'pthread_*: simulated (tasks = coroutines)', 'operator: restores the job file from the backup at quiescence if it is not a complete list'],
        },
        'assumptions': [
            'Linux POSIX advisory record-lock semantics on a local file system: shared/shared compatible, exclusive conflicts with other processes only, all locks of a process on a file dropped when it closes any descriptor of that file or dies',
            'a kill leaves exactly the bytes already passed to write(); no power-loss model (un-fsynced data is not lost)',
            'hosts differ by pid only; restart patterns naming ASSIGNED/COMPLETE jobs of live hosts are not generated (the tool itself warns that they double-assign by design)',
            'ENOSPC/EIO on the job file, pthread_create failure and allocation failure are not injected: the property is silent about them',
            'sampling, not proof',
        ],
    },
}
