// Simulated process identity, clock, POSIX record locks and file layer for the
// C10 engine.  Seams: -Wl,--wrap for open/close/fcntl/getpid/gethostname/time/
// localtime_r referenced by statically linked votca objects (boost file_lock is
// header-only code inside progressobserver.o) and definitions of write/writev/
// read/fopen/fopen64/fclose in the executable, which take precedence over libc
// for the calls libstdc++.so makes on behalf of std::ofstream / std::ifstream.
#pragma once
#include <string>
#include <sys/types.h>

namespace simio {

enum FileId { FILE_NONE = -1, FILE_F = 0, FILE_BACKUP = 1, FILE_LOCK = 2, FILE_OTHER = 3 /* any other file in the job directory, e.g. a temporary file that is renamed over the job file */ };

struct WriteFault {
  enum Kind { NONE, SHORT, KILL } kind = NONE;
  size_t bytes = 0;  // bytes that reach the file
};

// supplied by the engine
struct Env {
  virtual ~Env() = default;
  virtual int file_id(const char *path) = 0;
  virtual void file_event(int proc, int fileid, const char *op, long bytes) = 0;  // after the effect
  virtual WriteFault write_fault(int proc, int fileid, size_t n) = 0;
  virtual size_t read_fault(int proc, int fileid, size_t n) = 0;                 // bytes allowed (n = no fault)
  // op: 0 requested, 1 granted, 2 released by unlock, 3 dropped by close
  virtual void lock_event(int proc, int op, int mode) = 0;
  virtual long clock(int proc) = 0;
  virtual void process_exit(int proc, int code, const char *how) = 0;  // the code under test called exit/_exit/abort/raise(default action)
};

void reset(Env *env);              // before each run
void process_died(int proc);       // close its descriptors, drop its locks, wake waiters
int lock_mode_of(int proc);        // 0 none, 1 shared, 2 exclusive
int lock_holders();                // number of processes holding the lock file in any mode
// signals: handlers registered by a simulated process are recorded, not installed; deliver_signal runs the handler
// of `proc` on the current task and returns true if one was registered (false = default action, the caller kills)
bool deliver_signal(int proc, int signum);
int pid_of(int proc);
std::string host_of(int proc);     // "simhost:<pid>"

// harness-side file access that bypasses the simulation
bool raw_read_file(const std::string &path, std::string &out);
bool raw_write_file(const std::string &path, const std::string &content);

}  // namespace simio
