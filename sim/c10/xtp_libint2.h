// Stub for /repo/xtp/src/libxtp/xtp_libint2.h: libint2 is not installed on this
// image.  parallelxjobcalc.cc only needs these two calls.
#pragma once
namespace libint2 {
inline void initialize() {}
inline void finalize() {}
}  // namespace libint2
