#include "c10/io_interpose.h"
#include "core/sim.h"

#include <cerrno>
#include <cstdarg>
#include <cstdio>
#include <cstring>
#include <ctime>
#include <dlfcn.h>
#include <csignal>
#include <fcntl.h>
#include <map>
#include <sys/stat.h>
#include <sys/syscall.h>
#include <sys/uio.h>
#include <unistd.h>

using sim::active;

namespace simio {

struct FdInfo { int proc; int fileid; bool writing; };
static std::map<int, FdInfo> g_fds;          // tracked descriptors
static std::map<int, int> g_lock;            // proc -> mode (1 shared, 2 exclusive) on the lock file
static Env *g_env = nullptr;
typedef void (*sighandler)(int);
static std::map<std::pair<int, int>, sighandler> g_handlers;  // (process, signal) -> handler
static long g_mtime[4] = {0, 0, 0, 0};      // simulated modification time (seconds) per tracked file, 0 = never modified in this run
static void touch(int fileid, int proc) { if (fileid >= 0 && fileid < 4 && g_env) g_mtime[fileid] = g_env->clock(proc); }

static long raw_write(int fd, const void *b, size_t n) { return syscall(SYS_write, fd, b, n); }
static long raw_read(int fd, void *b, size_t n) { return syscall(SYS_read, fd, b, n); }
static int raw_open(const char *p, int flags, int mode) { return (int)syscall(SYS_openat, AT_FDCWD, p, flags, mode); }
static int raw_close(int fd) { return (int)syscall(SYS_close, fd); }

void reset(Env *env) {
  g_env = env;
  for (auto &kv : g_fds) raw_close(kv.first);
  g_fds.clear();
  g_lock.clear();
  for (long &m : g_mtime) m = 0;
  g_handlers.clear();
}

// pids are chosen so that some host strings are proper prefixes of others (simhost:12 / simhost:123 / simhost:1234):
// a restart pattern must match hosts exactly
bool deliver_signal(int proc, int signum) {
  auto it = g_handlers.find(std::make_pair(proc, signum));
  if (it == g_handlers.end() || it->second == SIG_DFL || it->second == SIG_IGN) return it != g_handlers.end() && it->second == SIG_IGN;
  sighandler h = it->second;
  h(signum);  // code under test; may not return (re-raise with default action)
  return true;
}

int pid_of(int proc) {
  static const int pids[] = {1, 12, 123, 1234, 77, 771, 7712, 45, 451};
  return proc >= 0 && proc < 9 ? pids[proc] : 9000 + proc;
}
std::string host_of(int proc) { return "simhost:" + std::to_string(pid_of(proc)); }
int lock_mode_of(int proc) { auto it = g_lock.find(proc); return it == g_lock.end() ? 0 : it->second; }
int lock_holders() { return (int)g_lock.size(); }

static void drop_locks(int proc, int how) {
  auto it = g_lock.find(proc);
  if (it == g_lock.end()) return;
  int mode = it->second;
  g_lock.erase(it);
  if (g_env) g_env->lock_event(proc, how, mode);
  sim::wake(sim::K_FLOCK, 0);
}

void process_died(int proc) {
  for (auto it = g_fds.begin(); it != g_fds.end();) {
    if (it->second.proc == proc) {
      raw_close(it->first);
      it = g_fds.erase(it);
    } else ++it;
  }
  drop_locks(proc, 3);
}

bool raw_read_file(const std::string &path, std::string &out) {
  out.clear();
  int fd = raw_open(path.c_str(), O_RDONLY, 0);
  if (fd < 0) return false;
  char buf[16384];
  long n;
  while ((n = raw_read(fd, buf, sizeof buf)) > 0) out.append(buf, (size_t)n);
  raw_close(fd);
  return true;
}

bool raw_write_file(const std::string &path, const std::string &content) {
  int fd = raw_open(path.c_str(), O_WRONLY | O_CREAT | O_TRUNC, 0644);
  if (fd < 0) return false;
  size_t off = 0;
  while (off < content.size()) {
    long n = raw_write(fd, content.data() + off, content.size() - off);
    if (n <= 0) break;
    off += (size_t)n;
  }
  raw_close(fd);
  return off == content.size();
}

static bool conflicts(int proc, int mode) {
  for (auto &kv : g_lock) {
    if (kv.first == proc) continue;       // locks of the same process never conflict
    if (kv.second == 2 || mode == 2) return true;
  }
  return false;
}

static FdInfo *tracked(int fd) {
  if (!active() || !g_env) return nullptr;
  auto it = g_fds.find(fd);
  return it == g_fds.end() ? nullptr : &it->second;
}

static long do_write(int fd, FdInfo *fi, const char *data, size_t n) {
  sim::Harness harness_scope;
  int proc = sim::self_proc();
  int fileid = fi->fileid;
  sim::point(sim::K_WRITE, fileid);
  WriteFault wf = g_env->write_fault(proc, fileid, n);
  size_t k = n;
  if (wf.kind != WriteFault::NONE) k = wf.bytes > n ? n : wf.bytes;
  size_t off = 0;
  while (off < k) {
    long r = raw_write(fd, data + off, k - off);
    if (r <= 0) { if (off == 0) return r; break; }
    off += (size_t)r;
  }
  sim::event(sim::K_WRITE, fileid, (long)off);
  touch(fileid, proc);
  g_env->file_event(proc, fileid, wf.kind == WriteFault::KILL ? "write-then-kill" : (wf.kind == WriteFault::SHORT ? "short-write" : "write"), (long)off);
  if (wf.kind == WriteFault::KILL) sim::kill_process(proc);  // never returns
  return (long)off;
}

}  // namespace simio

using namespace simio;

// ---------------------------------------------------------------------------
// definitions in the executable: reached by libstdc++.so (std::filebuf)
// ---------------------------------------------------------------------------
extern "C" {

ssize_t write(int fd, const void *buf, size_t n) {
  FdInfo *fi = tracked(fd);
  if (!fi) return raw_write(fd, buf, n);
  return do_write(fd, fi, (const char *)buf, n);
}

ssize_t writev(int fd, const struct iovec *iov, int cnt) {
  FdInfo *fi = tracked(fd);
  if (!fi) return syscall(SYS_writev, fd, iov, cnt);
  sim::Harness harness_scope;
  std::string all;
  for (int i = 0; i < cnt; i++) all.append((const char *)iov[i].iov_base, iov[i].iov_len);
  return do_write(fd, fi, all.data(), all.size());
}

ssize_t read(int fd, void *buf, size_t n) {
  FdInfo *fi = tracked(fd);
  if (!fi) return raw_read(fd, buf, n);
  sim::Harness harness_scope;
  int proc = sim::self_proc();
  int fileid = fi->fileid;
  sim::point(sim::K_READ, fileid);
  size_t k = g_env->read_fault(proc, fileid, n);
  if (k < 1) k = 1;
  if (k > n) k = n;
  long r = raw_read(fd, buf, k);
  sim::event(sim::K_READ, fileid, r);
  return r;
}

typedef FILE *(*fopen_t)(const char *, const char *);
typedef int (*fclose_t)(FILE *);

static FILE *sim_fopen(const char *name, const char *path, const char *mode) {
  static fopen_t real = nullptr;
  static fopen_t real64 = nullptr;
  if (!real) { real = (fopen_t)dlsym(RTLD_NEXT, "fopen"); real64 = (fopen_t)dlsym(RTLD_NEXT, "fopen64"); }
  fopen_t f = (strcmp(name, "fopen64") == 0 && real64) ? real64 : real;
  int fileid = (active() && g_env) ? g_env->file_id(path) : FILE_NONE;
  if (fileid == FILE_NONE) return f(path, mode);
  sim::Harness harness_scope;
  int proc = sim::self_proc();
  bool writing = strchr(mode, 'w') || strchr(mode, 'a') || strchr(mode, '+');
  sim::point(sim::K_FOPEN, fileid * 2 + (writing ? 1 : 0));
  FILE *fp = f(path, mode);
  if (!fp) return fp;
  g_fds[fileno(fp)] = FdInfo{proc, fileid, writing};
  sim::event(sim::K_FOPEN, fileid, writing);
  if (writing) touch(fileid, proc);
  g_env->file_event(proc, fileid, writing ? "open-truncate" : "open-read", 0);
  return fp;
}

FILE *fopen(const char *path, const char *mode) { return sim_fopen("fopen", path, mode); }
FILE *fopen64(const char *path, const char *mode) { return sim_fopen("fopen64", path, mode); }

int fclose(FILE *fp) {
  static fclose_t real = nullptr;
  if (!real) real = (fclose_t)dlsym(RTLD_NEXT, "fclose");
  int fd = fp ? fileno(fp) : -1;
  FdInfo *fi = fd >= 0 ? tracked(fd) : nullptr;
  if (!fi) return real(fp);
  sim::Harness harness_scope;
  int proc = sim::self_proc();
  int fileid = fi->fileid;
  bool writing = fi->writing;
  sim::point(sim::K_FCLOSE, fileid);
  g_fds.erase(fd);
  int r = real(fp);
  sim::event(sim::K_FCLOSE, fileid, writing);
  g_env->file_event(proc, fileid, "close", 0);
  // POSIX: closing ANY descriptor of a file drops all record locks the process holds on it,
  // also one that was opened through a stream
  if (fileid == FILE_LOCK) drop_locks(proc, 3);
  return r;
}

ssize_t pwrite(int fd, const void *buf, size_t n, off_t off) {
  FdInfo *fi = tracked(fd);
  if (!fi) return syscall(SYS_pwrite64, fd, buf, n, off);
  sim::Harness harness_scope;
  int proc = sim::self_proc();
  int fileid = fi->fileid;
  sim::point(sim::K_WRITE, fileid);
  WriteFault wf = g_env->write_fault(proc, fileid, n);
  size_t k = wf.kind != WriteFault::NONE ? (wf.bytes > n ? n : wf.bytes) : n;
  long r = k ? syscall(SYS_pwrite64, fd, buf, k, off) : 0;
  sim::event(sim::K_WRITE, fileid, r);
  touch(fileid, proc);
  g_env->file_event(proc, fileid, wf.kind == WriteFault::KILL ? "write-then-kill" : "write", r > 0 ? r : 0);
  if (wf.kind == WriteFault::KILL) sim::kill_process(proc);
  return r;
}
ssize_t pwrite64(int fd, const void *buf, size_t n, off_t off) { return pwrite(fd, buf, n, off); }

int ftruncate(int fd, off_t len) {
  FdInfo *fi = tracked(fd);
  if (!fi) return (int)syscall(SYS_ftruncate, fd, len);
  sim::Harness harness_scope;
  int proc = sim::self_proc();
  int fileid = fi->fileid;
  sim::point(sim::K_FOPEN, 300 + fileid);
  int r = (int)syscall(SYS_ftruncate, fd, len);
  sim::event(sim::K_FOPEN, 300 + fileid, len);
  touch(fileid, proc);
  g_env->file_event(proc, fileid, len == 0 ? "open-truncate" : "truncate", 0);
  return r;
}
int ftruncate64(int fd, off_t len) { return ftruncate(fd, len); }

int truncate(const char *path, off_t len) {
  int fileid = (active() && g_env) ? g_env->file_id(path) : FILE_NONE;
  if (fileid == FILE_NONE) return (int)syscall(SYS_truncate, path, len);
  sim::Harness harness_scope;
  int proc = sim::self_proc();
  sim::point(sim::K_FOPEN, 300 + fileid);
  int r = (int)syscall(SYS_truncate, path, len);
  sim::event(sim::K_FOPEN, 300 + fileid, len);
  touch(fileid, proc);
  g_env->file_event(proc, fileid, len == 0 ? "open-truncate" : "truncate", 0);
  return r;
}
int truncate64(const char *path, off_t len) { return truncate(path, len); }

int fsync(int fd) {
  FdInfo *fi = tracked(fd);
  if (fi) { sim::Harness harness_scope; sim::point(sim::K_FCLOSE, 400 + fi->fileid); }
  return (int)syscall(SYS_fsync, fd);
}
int fdatasync(int fd) {
  FdInfo *fi = tracked(fd);
  if (fi) { sim::Harness harness_scope; sim::point(sim::K_FCLOSE, 400 + fi->fileid); }
  return (int)syscall(SYS_fdatasync, fd);
}

// modification times of tracked files come from the simulated clock (a change that looks at the age of the lock
// file or of the job file must not see the real clock of the tmpfs)
static void patch_times(int fileid, struct stat *st) {
  if (!st || fileid < 0 || fileid >= 4 || !g_env) return;
  long t = g_mtime[fileid] ? g_mtime[fileid] : g_env->clock(0) - 3600;  // untouched in this run: one hour old
  st->st_mtim.tv_sec = t; st->st_mtim.tv_nsec = 0;
  st->st_ctim = st->st_mtim;
}
int stat(const char *path, struct stat *st) {
  int r = (int)syscall(SYS_newfstatat, AT_FDCWD, path, st, 0);
  if (r == 0 && active() && g_env) patch_times(g_env->file_id(path), st);
  return r;
}
int lstat(const char *path, struct stat *st) {
  int r = (int)syscall(SYS_newfstatat, AT_FDCWD, path, st, AT_SYMLINK_NOFOLLOW);
  if (r == 0 && active() && g_env) patch_times(g_env->file_id(path), st);
  return r;
}
int fstat(int fd, struct stat *st) {
  int r = (int)syscall(SYS_fstat, fd, st);
  FdInfo *fi = r == 0 ? tracked(fd) : nullptr;
  if (fi) patch_times(fi->fileid, st);
  return r;
}
int stat64(const char *path, struct stat64 *st) { return stat(path, (struct stat *)st); }
int lstat64(const char *path, struct stat64 *st) { return lstat(path, (struct stat *)st); }
int fstat64(int fd, struct stat64 *st) { return fstat(fd, (struct stat *)st); }

// ---- signals and process termination requested by the code under test ------------------------------------
sighandler signal(int signum, sighandler h) {
  typedef sighandler (*fn)(int, sighandler);
  static fn real = (fn)dlsym(RTLD_NEXT, "signal");
  if (!active() || !g_env || sim::self_proc() < 1) return real(signum, h);
  sim::Harness harness_scope;
  auto key = std::make_pair(sim::self_proc(), signum);
  sighandler old = g_handlers.count(key) ? g_handlers[key] : SIG_DFL;
  g_handlers[key] = h;
  return old;
}

int sigaction(int signum, const struct sigaction *act, struct sigaction *oldact) {
  typedef int (*fn)(int, const struct sigaction *, struct sigaction *);
  static fn real = (fn)dlsym(RTLD_NEXT, "sigaction");
  if (!active() || !g_env || sim::self_proc() < 1) return real(signum, act, oldact);
  sim::Harness harness_scope;
  auto key = std::make_pair(sim::self_proc(), signum);
  if (oldact) { memset(oldact, 0, sizeof *oldact); oldact->sa_handler = g_handlers.count(key) ? g_handlers[key] : SIG_DFL; }
  if (act) g_handlers[key] = act->sa_handler;
  return 0;
}

static void terminate_simulated(int code, const char *how) {
  int proc = sim::self_proc();
  { sim::Harness harness_scope; g_env->process_exit(proc, code, how); }
  sim::kill_process(proc);
}

int raise(int signum) {
  typedef int (*fn)(int);
  static fn real = (fn)dlsym(RTLD_NEXT, "raise");
  if (!active() || !g_env || sim::self_proc() < 1) return real(signum);
  if (deliver_signal(sim::self_proc(), signum)) return 0;
  terminate_simulated(128 + signum, "raise with default action");
  return 0;
}

int kill(pid_t pid, int signum) {
  typedef int (*fn)(pid_t, int);
  static fn real = (fn)dlsym(RTLD_NEXT, "kill");
  if (!active() || !g_env || sim::self_proc() < 1) return real(pid, signum);
  if (pid != pid_of(sim::self_proc())) return 0;  // signals to other processes are not modelled
  if (signum == 0) return 0;
  if (deliver_signal(sim::self_proc(), signum)) return 0;
  terminate_simulated(128 + signum, "kill(self) with default action");
  return 0;
}

void exit(int code) {
  typedef void (*fn)(int);
  static fn real = (fn)dlsym(RTLD_NEXT, "exit");
  if (active() && g_env && sim::self_proc() >= 1) terminate_simulated(code, "exit");
  real(code);
  __builtin_unreachable();
}
void _exit(int code) {
  if (active() && g_env && sim::self_proc() >= 1) terminate_simulated(code, "_exit");
  syscall(SYS_exit_group, code);
  __builtin_unreachable();
}
void abort(void) {
  typedef void (*fn)(void);
  static fn real = (fn)dlsym(RTLD_NEXT, "abort");
  if (active() && g_env && sim::self_proc() >= 1) terminate_simulated(134, "abort");
  real();
  __builtin_unreachable();
}

// rename / unlink / remove of files in the job directory: decision point before, file event after (the job file
// may have been replaced atomically)
typedef int (*rename_t)(const char *, const char *);
typedef int (*unlink_t)(const char *);

int rename(const char *from, const char *to) {
  static rename_t real = nullptr;
  if (!real) real = (rename_t)dlsym(RTLD_NEXT, "rename");
  int fid = (active() && g_env) ? g_env->file_id(to) : FILE_NONE;
  int fid2 = (active() && g_env) ? g_env->file_id(from) : FILE_NONE;
  if (fid == FILE_NONE && fid2 == FILE_NONE) return real(from, to);
  sim::Harness harness_scope;
  int proc = sim::self_proc();
  sim::point(sim::K_FOPEN, 100 + (fid >= 0 ? fid : fid2));
  int r = real(from, to);
  sim::event(sim::K_FOPEN, 100 + (fid >= 0 ? fid : fid2), r);
  if (fid >= 0) touch(fid, proc);
  g_env->file_event(proc, fid >= 0 ? fid : fid2, "rename", 0);
  return r;
}

static int sim_unlink(const char *name, const char *path) {
  static unlink_t real_unlink = nullptr, real_remove = nullptr;
  if (!real_unlink) { real_unlink = (unlink_t)dlsym(RTLD_NEXT, "unlink"); real_remove = (unlink_t)dlsym(RTLD_NEXT, "remove"); }
  unlink_t real = strcmp(name, "remove") == 0 ? real_remove : real_unlink;
  int fid = (active() && g_env) ? g_env->file_id(path) : FILE_NONE;
  if (fid == FILE_NONE) return real(path);
  sim::Harness harness_scope;
  int proc = sim::self_proc();
  sim::point(sim::K_FOPEN, 200 + fid);
  int r = real(path);
  sim::event(sim::K_FOPEN, 200 + fid, r);
  g_env->file_event(proc, fid, "unlink", 0);
  return r;
}
int unlink(const char *path) { return sim_unlink("unlink", path); }
int remove(const char *path) { return sim_unlink("remove", path); }

// ---------------------------------------------------------------------------
// --wrap seam: calls made by statically linked votca objects
// ---------------------------------------------------------------------------
pid_t __real_getpid(void);
int __real_gethostname(char *, size_t);
time_t __real_time(time_t *);
struct tm *__real_localtime_r(const time_t *, struct tm *);

static int sim_open(const char *path, int flags, int mode) {
  int fileid = (active() && g_env) ? g_env->file_id(path) : FILE_NONE;
  if (fileid == FILE_NONE) return raw_open(path, flags, mode);
  sim::Harness harness_scope;
  int proc = sim::self_proc();
  sim::point(sim::K_OPEN, fileid);
  int fd = raw_open(path, flags, mode);
  if (fd >= 0) g_fds[fd] = FdInfo{proc, fileid, (flags & O_ACCMODE) != O_RDONLY};
  sim::event(sim::K_OPEN, fileid, fd >= 0);
  if (fd >= 0 && (flags & O_TRUNC) && fileid != FILE_LOCK) {
    touch(fileid, proc);
    g_env->file_event(proc, fileid, "open-truncate", 0);
  }
  return fd;
}

int open(const char *path, int flags, ...) {
  int mode = 0;
  if (flags & (O_CREAT | O_TMPFILE)) { va_list ap; va_start(ap, flags); mode = va_arg(ap, int); va_end(ap); }
  return sim_open(path, flags, mode);
}
int open64(const char *path, int flags, ...) {
  int mode = 0;
  if (flags & (O_CREAT | O_TMPFILE)) { va_list ap; va_start(ap, flags); mode = va_arg(ap, int); va_end(ap); }
  return sim_open(path, flags, mode);
}

int close(int fd) {
  FdInfo *fi = tracked(fd);
  if (!fi) return raw_close(fd);
  sim::Harness harness_scope;
  int proc = fi->proc;
  int fileid = fi->fileid;
  sim::point(sim::K_CLOSE, fileid);
  g_fds.erase(fd);
  int r = raw_close(fd);
  sim::event(sim::K_CLOSE, fileid, 0);
  // POSIX: closing any descriptor of a file drops all record locks the process holds on it
  if (fileid == FILE_LOCK) drop_locks(proc, 3);
  return r;
}

static int sim_fcntl(int fd, int cmd, void *arg);
int fcntl(int fd, int cmd, ...) {
  va_list ap;
  va_start(ap, cmd);
  void *arg = va_arg(ap, void *);
  va_end(ap);
  return sim_fcntl(fd, cmd, arg);
}
int fcntl64(int fd, int cmd, ...) {
  va_list ap;
  va_start(ap, cmd);
  void *arg = va_arg(ap, void *);
  va_end(ap);
  return sim_fcntl(fd, cmd, arg);
}
static int sim_fcntl(int fd, int cmd, void *arg) {
  FdInfo *fi = tracked(fd);
  if (!fi || fi->fileid != FILE_LOCK || (cmd != F_SETLK && cmd != F_SETLKW)) return (int)syscall(SYS_fcntl, fd, cmd, arg);
  sim::Harness harness_scope;
  struct flock *fl = (struct flock *)arg;
  int proc = sim::self_proc();
  if (fl->l_type == F_UNLCK) {
    sim::point(sim::K_FUNLOCK, 0);
    sim::event(sim::K_FUNLOCK, 0, lock_mode_of(proc));
    drop_locks(proc, 2);
    sim::point(sim::K_FUNLOCK, 1);
    return 0;
  }
  int mode = fl->l_type == F_WRLCK ? 2 : 1;
  g_env->lock_event(proc, 0, mode);
  sim::point(sim::K_FLOCK, mode);
  while (conflicts(proc, mode)) {
    if (cmd == F_SETLK) { errno = EAGAIN; return -1; }
    sim::block_on(sim::K_FLOCK, 0);
  }
  g_lock[proc] = mode;
  sim::event(sim::K_FLOCKED, 0, mode);
  g_env->lock_event(proc, 1, mode);
  return 0;
}

pid_t __wrap_getpid(void) {
  if (!active() || !g_env) return __real_getpid();
  sim::Harness harness_scope;
  sim::point(sim::K_GETPID, 0);
  return pid_of(sim::self_proc());
}

int __wrap_gethostname(char *name, size_t len) {
  if (!active() || !g_env) return __real_gethostname(name, len);
  snprintf(name, len, "simhost");
  return 0;
}

time_t __wrap_time(time_t *t) {
  if (!active() || !g_env) return __real_time(t);
  sim::Harness harness_scope;
  sim::point(sim::K_TIME, 0);
  time_t v = (time_t)g_env->clock(sim::self_proc());
  if (t) *t = v;
  return v;
}

struct tm *__wrap_localtime_r(const time_t *t, struct tm *out) {
  if (!active() || !g_env) return __real_localtime_r(t, out);
  return gmtime_r(t, out);
}
}
