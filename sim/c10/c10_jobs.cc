// Engine c10_jobs: 1..5 simulated processes x 1..4 threads run the real
// ParallelXJobCalc::Evaluate / ProgObserver / Job code on one shared job file
// through a simulated POSIX-lock and file layer, with kills at arbitrary
// decision points including inside a write().  Oracle: every completed
// synchronisation is validated as a transition of an abstract job table; file
// integrity after every file event.  DESIGN.md section 3.2.
#include "c10/io_interpose.h"
#include "core/engine.h"
#include "core/wrap_pthread.h"

#include <votca/xtp/job.h>
#include <votca/xtp/parallelxjobcalc.h>
#include <votca/xtp/progressobserver.h>

#include <boost/program_options.hpp>
#include <iostream>
#include <fstream>
#include <sstream>
#include <sys/stat.h>

using namespace votca;

namespace {

enum UserKind { U_EVAL = sim::K_USER + 0, U_EVALBEGIN = sim::K_USER + 1, U_EVALEND = sim::K_USER + 2, U_OPERATOR = sim::K_USER + 3, U_SYNC = sim::K_USER + 4 };
enum Phase { PH_INIT = 0, PH_WAITLOCK = 1, PH_LOAD = 2, PH_BACKUP = 3, PH_WRITE = 4, PH_RUNNING = 5, PH_EVAL = 6, PH_GATE = 7 };

// kinds a kill can be attached to
enum KillAt { KA_ANY = 0, KA_WRITE, KA_FOPEN, KA_LOCKED, KA_FCLOSE, KA_READ, KA_MUTEX, KA_UNLOCK, KA_N };
const char *killat_name[KA_N] = {"any", "write", "fopen", "locked", "fclose", "read", "mutex", "funlock"};

// at == KA_WRITE: the kill lands inside the nth rewrite (open-truncate .. close) of `file` by `proc`, after
// frac x (size of the job file before the rewrite) bytes have reached the file
struct KillSpec { int proc = 0; int at = KA_ANY; int nth = 1; double frac = 0.5; int file = 0; long abs_bytes = -1; /* >= 0: exact byte offset (enumeration) */
                  bool sigterm = false; /* deliver SIGTERM instead of SIGKILL: a registered handler runs first (the code as given has none) */
                  int stall_s = 0;      /* > 0: not a kill at all: the task sleeps this many TICKS of simulated time (suspended / very slow process;
                                           40 / 2000 / 20000 ticks = 2 s / 100 s / 1000 s at 50 ms per tick, 1000 times less at 1 ms) */ };

enum StartKind { ST_NOW = 0, ST_AFTER_SYNCS, ST_AFTER_END, ST_PHASE2 };

struct ProcSpec {
  int threads = 1;
  int cache = 1;
  long maxjobs = -1;
  bool restart_failed = false;        // stat(FAILED)
  bool restart_assigned = false;      // stat(ASSIGNED): only for a process that starts after quiescence (no live host)
  bool restart_complete = false;      // stat(COMPLETE): likewise
  bool restart_oldhost = false;       // host(oldhost:1)
  std::vector<int> restart_procs;     // host(simhost:<pid of proc>)
  bool restart_all_dead = false;      // phase 2: name every host that died (resolved at start)
  int start = ST_NOW;
  int start_ref = 0;                  // process referred to by AFTER_SYNCS / AFTER_END
  int start_k = 1;
  long skew = 0;                      // clock skew in seconds
  bool is_restart() const { return restart_failed || restart_assigned || restart_complete || restart_oldhost || !restart_procs.empty() || restart_all_dead; }
};

struct Plan : sim::PlanBase {
  int J = 4;
  std::vector<int> init_status;       // per job: 0 AVAILABLE, 1 COMPLETE, 2 FAILED, 3 ASSIGNED by the vanished host oldhost:1; 4..6 the same by oldhost:12
  std::vector<ProcSpec> procs;
  std::vector<KillSpec> kills;
  double short_write = 0, short_read = 0, fail_rate = 0;
  bool fail_with_output = false;
  int eval_max = 2;
  uint64_t fault_seed = 0;
  long clock_jump_step = -1;          // at this simulated step every clock jumps by clock_jump
  long clock_jump = 0;
  int tick_ms = 50;                   // simulated time per decision point (1, 5 or 50 ms): how many synchronisations fit into one second
  bool structured = false;            // job inputs and results are nested XML with attributes (what real calculators produce), compared after removing white space
  bool bare_results = false;          // some jobs return COMPLETE without <output> / FAILED without <error> (same file size as ASSIGNED)
  long alloc_stride = 0;              // > 0: every alloc_stride-th C++ allocation inside the xtp code is a decision point
  int enum_full_below = 160;          // enumeration: rewrites of at most this many bytes are cut at EVERY byte offset
  bool enumerate = false;             // thorough: enumerate a kill at every crash point along this plan's schedule
};

struct JobRec {
  long id = -1;
  std::string status, host, output, error, input, tag;
  bool has_host = false, has_output = false, has_error = false;
};

// independent scanner for the job-file format written by Job::ToStream
static std::string between(const std::string &s, const std::string &a, const std::string &b, bool *found) {
  size_t p = s.find(a);
  if (p == std::string::npos) { *found = false; return ""; }
  size_t q = s.find(b, p + a.size());
  if (q == std::string::npos) { *found = false; return ""; }
  *found = true;
  std::string t = s.substr(p + a.size(), q - p - a.size());
  size_t x = t.find_first_not_of(" \t\n\r"), y = t.find_last_not_of(" \t\n\r");
  return x == std::string::npos ? "" : t.substr(x, y - x + 1);
}

// nested XML is compared without white space (indentation depends on the nesting depth in the job file)
static std::string strip_ws(const std::string &s) {
  std::string o;
  for (char ch : s) if (ch != ' ' && ch != '\t' && ch != '\n' && ch != '\r') o += ch;
  return o;
}

// returns true iff `c` is a complete job list: <jobs> ... </jobs> with well-formed job blocks
static bool scan_jobs(const std::string &c, std::vector<JobRec> &out) {
  out.clear();
  size_t p = c.find("<jobs>");
  if (p == std::string::npos) return false;
  p += 6;
  for (;;) {
    size_t a = c.find("<job>", p);
    size_t e = c.find("</jobs>", p);
    if (a == std::string::npos || (e != std::string::npos && e < a)) {
      if (e == std::string::npos) return false;
      // nothing but white space may follow
      return c.find_first_not_of(" \t\n\r", e + 7) == std::string::npos;
    }
    size_t b = c.find("</job>", a);
    if (b == std::string::npos) return false;
    std::string blk = c.substr(a + 5, b - a - 5);
    if (blk.find("<job>") != std::string::npos) return false;
    JobRec r;
    bool f;
    std::string id = between(blk, "<id>", "</id>", &f);
    if (!f || id.empty()) return false;
    r.id = atol(id.c_str());
    r.tag = between(blk, "<tag>", "</tag>", &f);
    r.input = strip_ws(between(blk, "<input>", "</input>", &f));
    r.status = between(blk, "<status>", "</status>", &f);
    if (!f) return false;
    r.host = between(blk, "<host>", "</host>", &r.has_host);
    r.output = strip_ws(between(blk, "<output>", "</output>", &r.has_output));
    r.error = between(blk, "<error>", "</error>", &r.has_error);
    out.push_back(r);
    p = b + 6;
  }
}

static std::string host(int q) { return simio::host_of(q + 1); }

struct ExecRec { std::string token; std::string status, output, error; bool has_output = false, has_error = false; bool done = false; bool published = false; long gen = 0; };

struct ProcState {
  bool started = false, finished = false, dead = false, killed = false;
  std::string abort_what;
  int syncs = 0;
  long claims = 0;
  std::map<long, ExecRec> results;    // job id -> last execution by this process
  std::vector<long> executed;         // job ids in execution order
  std::set<std::string> restart_hosts;
  std::set<std::string> restart_stats;
  bool asked_to_stop = false;         // an injected SIGTERM was handled: the process may wind down without taking further jobs
  bool solo = false;                  // was the only live process during its whole life
  std::vector<long> claimable_at_start;
  int main_task = -1;
};

struct World : simio::Env {
  const Plan *plan = nullptr;
  std::string dir, F, FB, L;
  std::vector<JobRec> T;              // abstract job table
  std::vector<long> claim_gen, exec_gen;
  std::vector<long> executing;        // job id -> task executing it (or -1)
  std::vector<ProcState> ps;
  std::vector<bool> gate_open;
  std::set<int> holders;
  int torn_by = -1;                   // process whose death left F incomplete
  bool injected_tear = false;
  sim::Rng frng;
  std::map<std::string, long> counters;
  std::vector<int> kill_count[8];     // per process counters per KillAt
  std::vector<bool> kill_done;
  long clock_base = 1700000000;
  long eval_counter = 0;
  js::Value hist = js::Value::arr();
  int max_live = 0;
  int live() const { int n = 0; for (auto &s : ps) if (s.started && !s.finished && !s.dead) n++; return n; }
  bool phase2_opened = false;

  // ---- Env ---------------------------------------------------------------
  int file_id(const char *path) override {
    if (F == path) return simio::FILE_F;
    if (FB == path) return simio::FILE_BACKUP;
    if (L == path) return simio::FILE_LOCK;
    if (strncmp(path, dir.c_str(), dir.size()) == 0 && path[dir.size()] == '/') return simio::FILE_OTHER;  // e.g. a temporary file next to the job file
    return simio::FILE_NONE;
  }
  long clock(int sproc) override {
    int proc = sproc - 1;
    long t = clock_base + (long)(sim::now_ns() / 1000000000LL) + (proc >= 0 ? plan->procs[proc].skew : 0);
    if (plan->clock_jump_step >= 0 && sim::now_step() >= plan->clock_jump_step) { t += plan->clock_jump; counters["fault.clock_jump"] = 1; }
    return t;
  }
  // the code under test ended its own process (exit, abort, a signal re-raised with the default action)
  void process_exit(int sproc, int code, const char *how) override {
    int q = sproc - 1;
    if (q < 0) return;
    note("p" + std::to_string(q) + " " + how + " code " + std::to_string(code));
    if (ps[q].killed) return;  // e.g. a SIGTERM handler that re-raises: the injected fault takes effect now
    ps[q].abort_what = std::string(how) + " with code " + std::to_string(code);
    ps[q].dead = true;
    // I4: only an injected kill that damaged the job file justifies giving up
    if (torn_by < 0 && code != 0) sim::abort_run("process-aborted", "p" + std::to_string(q) + " ended itself (" + ps[q].abort_what + ") although no injected kill had damaged the job file");
  }
  void note(const std::string &s) {
    if (hist.a.size() < 400) hist.push(s);
    sim::note(s);
  }

  void kill_probe(int proc) {
    const ProcSpec &sp = plan->procs[(size_t)proc];
    if (sp.start == ST_PHASE2) counters["probe.sweeper_killed"]++;
    else if (sp.is_restart()) counters["probe.restart_process_killed"]++;
  }
  bool kill_due(int proc, int at) {
    bool due = false;
    for (size_t i = 0; i < plan->kills.size(); i++) {
      const KillSpec &k = plan->kills[i];
      if (kill_done[i] || k.proc != proc || k.at != at) continue;
      if (kill_count[at][proc] == k.nth) { kill_done[i] = true; due = true; }
    }
    return due;
  }
  // bookkeeping for kills inside a rewrite
  std::vector<int> rewrites[2];        // [file][proc] number of open-truncates so far
  std::vector<long> rewrite_bytes[2];  // bytes written in the current rewrite
  std::vector<long> rewrite_target[2]; // byte offset at which a pending kill fires (-1 none)
  void rewrite_begins(int proc, int fileid) {
    rewrites[fileid][proc]++;
    rewrite_bytes[fileid][proc] = 0;
    rewrite_sizes[fileid][proc].push_back(0);
    rewrite_target[fileid][proc] = -1;
    for (size_t i = 0; i < plan->kills.size(); i++) {
      const KillSpec &k = plan->kills[i];
      if (kill_done[i] || k.proc != proc || k.at != KA_WRITE || k.file != fileid || k.nth != rewrites[fileid][proc]) continue;
      rewrite_target[fileid][proc] = k.abs_bytes >= 0 ? k.abs_bytes : (long)(k.frac * (double)last_size);
      kill_done[i] = true;
    }
  }
  long last_size = 0;                  // size of the job file when it was last seen complete
  std::vector<std::vector<long>> rewrite_sizes[2];  // [file][proc] -> bytes of each completed or running rewrite

  simio::WriteFault write_fault(int sproc, int fileid, size_t n) override {
    simio::WriteFault wf;
    int proc = sproc - 1;
    if (proc < 0 || fileid > simio::FILE_BACKUP) return wf;  // no faults on writes to the lock file
    long tgt = rewrite_target[fileid][proc];
    long sofar = rewrite_bytes[fileid][proc];
    if (tgt >= 0 && sofar + (long)n >= tgt && !ps[proc].killed) {
      wf.kind = simio::WriteFault::KILL;
      wf.bytes = (size_t)std::max(0L, tgt - sofar);
      rewrite_target[fileid][proc] = -1;
      counters["fault.kill"]++;
      counters[std::string("fault.kill_in_write_") + (fileid == simio::FILE_F ? "jobfile" : "backup")]++;
      ps[proc].killed = true;
      kill_probe(proc);
      note("KILL p" + std::to_string(proc) + " inside write of " + (fileid == simio::FILE_F ? "F" : "F~") + " after " + std::to_string(wf.bytes) + "/" + std::to_string(n) + " bytes");
      return wf;
    }
    if (plan->short_write > 0 && n > 1 && frng.chance(plan->short_write)) {
      wf.kind = simio::WriteFault::SHORT;
      wf.bytes = 1 + frng.below(n - 1);
      if (tgt >= 0 && sofar + (long)wf.bytes >= tgt) wf.bytes = (size_t)std::max(1L, tgt - sofar - 1);
      counters["fault.short_write"]++;
      if (fileid == simio::FILE_F) counters["probe.short_write_split_jobfile"]++;
    }
    return wf;
  }
  size_t read_fault(int, int, size_t n) override {
    if (plan->short_read > 0 && n > 1 && frng.chance(plan->short_read)) {
      counters["fault.short_read"]++;
      return 1 + frng.below(n - 1);
    }
    return n;
  }

  // I1: at every instant the job file or its backup is a complete job list
  void file_event(int sproc, int fileid, const char *op, long bytes) override {
    int proc = sproc - 1;
    if (fileid == simio::FILE_LOCK) return;
    if (fileid == simio::FILE_OTHER) {  // no bookkeeping of its own, but the job file may just have been replaced (rename)
      if (strcmp(op, "rename") != 0 && strcmp(op, "unlink") != 0) return;
      fileid = simio::FILE_F;
      proc = -1;  // not a rewrite of the job file by truncation
    }
    if (fileid == simio::FILE_BACKUP && strcmp(op, "open-truncate") == 0) sim::set_phase(PH_BACKUP);
    if (fileid == simio::FILE_F && strcmp(op, "open-truncate") == 0) sim::set_phase(PH_WRITE);
    if (strcmp(op, "rename") == 0 || strcmp(op, "unlink") == 0) proc = -1;
    if (strcmp(op, "open-truncate") == 0 && proc >= 0) rewrite_begins(proc, fileid);
    else if (proc >= 0 && bytes > 0) { rewrite_bytes[fileid][proc] += bytes; if (!rewrite_sizes[fileid][proc].empty()) rewrite_sizes[fileid][proc].back() += bytes; }
    if (strcmp(op, "open-read") == 0 || (strcmp(op, "close") == 0)) return;  // content unchanged
    (void)bytes;
    std::string c;
    std::vector<JobRec> recs;
    bool okF = simio::raw_read_file(F, c) && scan_jobs(c, recs) && ids_complete(recs);
    if (okF) last_size = (long)c.size();
    bool okB = false;
    if (!okF) okB = simio::raw_read_file(FB, c) && scan_jobs(c, recs) && ids_complete(recs);
    counters["check.integrity_scans"]++;
    if (!okF && !okB) {
      sim::abort_run("no-complete-copy", std::string("after ") + op + " on " + (fileid == simio::FILE_F ? "the job file" : "the backup") + " by p" + std::to_string(sproc - 1) +
                                             " neither the job file nor its backup is a complete job list");
    }
  }

  bool ids_complete(const std::vector<JobRec> &r) const {
    if ((int)r.size() != plan->J) return false;
    for (int i = 0; i < plan->J; i++) if (r[i].id != i + 1) return false;
    return true;
  }

  void lock_event(int sproc, int op, int mode) override {
    int proc = sproc - 1;
    if (proc < 0) return;
    if (op == 0) { sim::set_phase(PH_WAITLOCK); return; }
    if (op == 1) {
      sim::set_phase(PH_LOAD);
      if (!holders.empty()) {
        counters["probe.two_lock_holders"]++;
      }
      holders.insert(proc);
      uint64_t h = 0;
      for (int q : holders) h = h * 8 + (uint64_t)q + 1;
      sim::set_state_extra(h);
      (void)mode;
      return;
    }
    // released (2: unlock, 3: close / death)
    holders.erase(proc);
    uint64_t h = 0;
    for (int q : holders) h = h * 8 + (uint64_t)q + 1;
    sim::set_state_extra(h);
    if (sim::self() >= 0 && sim::self_proc() == sproc && !ps[proc].dead) sim::set_phase(PH_RUNNING);
    sync_completed(proc, op == 3);
  }

  // ---- the abstract job table ----------------------------------------------
  bool claimable(const JobRec &t, int q) const {
    if (t.status == "AVAILABLE") return true;
    const ProcState &s = ps[q];
    if (s.restart_stats.count(t.status)) return true;
    if (t.has_host && s.restart_hosts.count(t.host)) return true;
    return false;
  }

  // validate the job file against the table after process q gave up the lock
  void sync_completed(int q, bool by_death) {
    std::string c;
    std::vector<JobRec> recs;
    bool ok = simio::raw_read_file(F, c) && scan_jobs(c, recs);
    if (!ok || !ids_complete(recs)) {
      if (ps[q].killed || torn_by >= 0) {
        if (torn_by < 0) { torn_by = q; counters["probe.jobfile_torn_by_kill"]++; note("F left incomplete by the death of p" + std::to_string(q)); }
        return;  // decided after the operator has restored the backup
      }
      sim::abort_run("jobfile-incomplete", "after p" + std::to_string(q) + " released the lock the job file is not a complete job list (no kill was injected)");
    }
    validate(q, recs, by_death ? "death of" : "synchronisation of");
    ps[q].syncs++;
    counters["check.syncs_validated"]++;
    open_gates();
  }

  void validate(int q, const std::vector<JobRec> &recs, const std::string &what) {
    const std::string hq = host(q);
    long claims = 0;
    for (int j = 0; j < plan->J; j++) {
      const JobRec &f = recs[j];
      JobRec &t = T[j];
      auto fail = [&](const std::string &cls, const std::string &why) {
        sim::abort_run(cls, what + " p" + std::to_string(q) + ": job " + std::to_string(j + 1) + " " + why + " (table: " + t.status + "/" + t.host +
                                "/out=" + t.output + "/err=" + t.error + ", file: " + f.status + "/" + f.host + "/out=" + f.output + "/err=" + f.error + ")");
      };
      if (f.input != t.input || f.tag != t.tag) fail("job-corrupted", "tag or input changed");
      bool same_so = f.status == t.status && f.host == t.host && f.has_host == t.has_host;
      bool terminal = f.status == "COMPLETE" || f.status == "FAILED";
      bool same_res = f.output == t.output && f.error == t.error && f.has_output == t.has_output && f.has_error == t.has_error;
      if (same_so && (!terminal || same_res)) {  // T0 unchanged
        if (plan->structured && terminal && f.has_output && f.host != hq) counters["probe.nested_output_rewritten_by_other_process"]++;
        t = f;
        continue;
      }
      // T1 publish
      auto it = ps[q].results.find(j + 1);
      if (t.status == "ASSIGNED" && t.host == hq && it != ps[q].results.end() && it->second.done && it->second.gen == claim_gen[j] && f.host == hq) {
        const ExecRec &r = it->second;
        if (f.status != r.status) fail("bad-publish", "published with status " + f.status + " but EvalJob returned " + r.status);
        if (f.output != r.output || f.has_output != r.has_output) fail("bad-publish", "published output differs from what EvalJob returned (" + r.output + ")");
        if (f.error != r.error || f.has_error != r.has_error) fail("bad-publish", "published error differs from what EvalJob returned (" + r.error + ")");
        it->second.published = true;
        t = f;
        counters["check.publications"]++;
        if (plan->structured && f.has_output) counters["probe.nested_output_published"]++;
        continue;
      }
      // T2 claim
      if (f.status == "ASSIGNED" && f.host == hq && !(t.status == "ASSIGNED" && t.host == hq)) {
        if (!claimable(t, q)) fail("bad-claim", "was claimed although it is neither AVAILABLE nor named by the restart pattern of the claimant");
        claims++;
        ps[q].claims++;
        claim_gen[j]++;
        if (t.status != "AVAILABLE") counters["probe.restart_reopened"]++;
        if (t.status != "AVAILABLE" && live() > 1) counters["probe.restart_reopened_while_other_alive"]++;
        t = f;
        counters["check.claims"]++;
        continue;
      }
      // everything else: lost update, regression, invention
      if (t.host != hq || !t.has_host) fail("lost-update", "belongs to another worker and was changed");
      fail("bad-transition", "changed in a way that is neither a publication nor a claim");
    }
    const ProcSpec &sp = plan->procs[q];
    if (claims > sp.cache) sim::abort_run("cache-exceeded", "p" + std::to_string(q) + " claimed " + std::to_string(claims) + " jobs in one synchronisation, cache is " + std::to_string(sp.cache));
    if (sp.maxjobs >= 0 && ps[q].claims > sp.maxjobs)
      sim::abort_run("maxjobs-exceeded", "p" + std::to_string(q) + " claimed " + std::to_string(ps[q].claims) + " jobs, maxjobs is " + std::to_string(sp.maxjobs));
    if (claims == 0) counters["probe.sync_without_new_job"]++;
    if (sp.maxjobs >= 0 && ps[q].claims == sp.maxjobs) counters["probe.maxjobs_reached"]++;
  }

  // ---- gates (process start times) -------------------------------------------
  bool ended(int p) const { return ps[p].finished || ps[p].dead; }
  void open_gates() {
    for (size_t p = 0; p < plan->procs.size(); p++) {
      if (gate_open[p]) continue;
      const ProcSpec &sp = plan->procs[p];
      bool open = false;
      if (sp.start == ST_NOW) open = true;
      else if (sp.start == ST_AFTER_SYNCS) open = ps[sp.start_ref].syncs >= sp.start_k || ended(sp.start_ref);
      else if (sp.start == ST_AFTER_END) open = ended(sp.start_ref);
      if (open) { gate_open[p] = true; sim::wake(sim::K_GATE, (long)p); }
    }
  }

  // no runnable task: operator step, then the next phase
  bool on_idle() {
    bool any_live = false;
    for (size_t p = 0; p < ps.size(); p++) if (ps[p].started && !ended((int)p)) any_live = true;
    if (any_live) return false;  // genuine deadlock among live processes
    // operator: restore the job file from its backup if it is not a complete list
    std::string c;
    std::vector<JobRec> recs;
    bool ok = simio::raw_read_file(F, c) && scan_jobs(c, recs) && ids_complete(recs);
    if (!ok) {
      std::string b;
      std::vector<JobRec> brecs;
      bool okb = simio::raw_read_file(FB, b) && scan_jobs(b, brecs) && ids_complete(brecs);
      if (!okb) sim::abort_run("no-complete-copy", "at quiescence neither the job file nor the backup is a complete job list");
      simio::raw_write_file(F, b);
      counters["probe.operator_restored_backup"]++;
      note("operator: job file restored from backup");
      recs = brecs;
      // crash rules: the recovered file may differ from the table only by what the dead process did
      int q = torn_by;
      torn_by = -1;
      if (q >= 0) validate(q, recs, "recovery from the backup after the death of");
      sim::event(U_OPERATOR, q, 0);
    }
    bool woke = false;
    for (size_t p = 0; p < plan->procs.size(); p++) {
      if (gate_open[p]) continue;
      if (plan->procs[p].start != ST_PHASE2) { gate_open[p] = true; sim::wake(sim::K_GATE, (long)p); woke = true; }
    }
    if (!woke) {
      for (size_t p = 0; p < plan->procs.size(); p++) {
        if (gate_open[p]) continue;
        gate_open[p] = true; sim::wake(sim::K_GATE, (long)p); woke = true;
        phase2_opened = true;  // all phase-2 processes start together (two restart processes with the same pattern may race)
      }
    }
    return woke;
  }
};

World *Wd = nullptr;

// ---- process-global objects of the code under test, one copy per simulated process -------------------------------
// bin/static_guard writes "<exe>.statics" at link time: offset, size and name of every writable static object the xtp
// sources define beyond sim/c10/static_whitelist.txt (none in the code as given).  Each simulated process gets its
// own copy of these byte ranges: they are swapped whenever the CPU passes from one simulated process to another and
// reset to the image they had at engine start before every run.
struct StaticRange { char *addr; size_t size; std::string name; };
std::vector<StaticRange> g_statics;
std::string g_static_pristine;                       // concatenated initial contents
std::vector<std::string> g_static_copies;            // per simulated process (index = sim proc id), preallocated per run
extern "C" char __executable_start;

void load_static_table(const char *argv0) {
  char exe[4096];
  ssize_t n = readlink("/proc/self/exe", exe, sizeof exe - 1);
  std::string path = n > 0 ? std::string(exe, (size_t)n) : std::string(argv0);
  std::ifstream f(path + ".statics");
  long off; size_t size; std::string name;
  while (f >> off >> size) {
    std::getline(f, name);
    g_statics.push_back({&__executable_start + off, size, name});
  }
  for (auto &r : g_statics) g_static_pristine.append(r.addr, r.size);
}
// no allocation in here: the hook runs inside the scheduler's task switch, where an allocation decision point of
// the switching task would re-enter the scheduler (every copy is preallocated at run start)
void statics_store(std::string &buf) {
  size_t off = 0;
  for (auto &r : g_statics) { memcpy(&buf[off], r.addr, r.size); off += r.size; }
}
void statics_load(const std::string &buf) {
  size_t off = 0;
  for (auto &r : g_statics) { memcpy(r.addr, buf.data() + off, r.size); off += r.size; }
}


// ---------------------------------------------------------------------------
// stub job calculator: the only stubbed component
// ---------------------------------------------------------------------------
class StubCalc : public xtp::ParallelXJobCalc<std::vector<xtp::Job>> {
 public:
  explicit StubCalc(int proc) : proc_(proc) {}
  std::string Identify() const override { return "stubcalc"; }
  void WriteJobFile(const xtp::Topology &) override {}
  void ReadJobFile(xtp::Topology &) override {}
  void ParseSpecificOptions(const tools::Property &) override {}

  xtp::Job::JobResult EvalJob(const xtp::Topology &, xtp::Job &job, xtp::QMThread &thread) override {
    sim::Harness harness_scope;
    World &w = *Wd;
    long id = job.getId();
    int j = (int)id - 1;
    const std::string hq = host(proc_);
    if (j < 0 || j >= w.plan->J) sim::abort_run("unknown-job", "EvalJob called with job id " + std::to_string(id));
    // I2: exactly one worker per assignment
    if (w.executing[j] != -1)
      sim::abort_run("double-execution", "job " + std::to_string(id) + " is started by p" + std::to_string(proc_) + " while task " + std::to_string(w.executing[j]) + " is executing it");
    if (!(w.T[j].status == "ASSIGNED" && w.T[j].host == hq))
      sim::abort_run("unassigned-execution", "job " + std::to_string(id) + " is started by p" + std::to_string(proc_) + " but the last completed synchronisation shows it as " +
                                                 w.T[j].status + "/" + w.T[j].host);
    if (w.exec_gen[j] >= w.claim_gen[j])
      sim::abort_run("double-execution", "job " + std::to_string(id) + " is executed a second time under the same assignment (p" + std::to_string(proc_) + ")");
    w.exec_gen[j] = w.claim_gen[j];
    w.executing[j] = sim::self();
    ExecRec r;
    r.gen = w.claim_gen[j];
    r.token = "j" + std::to_string(id) + "p" + std::to_string(proc_) + "t" + std::to_string(thread.getId()) + "n" + std::to_string(++w.eval_counter);
    w.ps[proc_].results[id] = r;
    w.ps[proc_].executed.push_back(id);
    w.counters["check.executions"]++;
    sim::event(U_EVALBEGIN, id, proc_);
    int old_phase = PH_RUNNING;
    sim::set_phase(PH_EVAL);
    uint64_t h = sim::hmix(sim::hmix(w.plan->fault_seed, (uint64_t)id), (uint64_t)r.gen * 31 + (uint64_t)proc_);
    int pts = w.plan->eval_max > 0 ? (int)(h % (uint64_t)(w.plan->eval_max + 1)) : 0;
    for (int k = 0; k < pts; k++) sim::point(U_EVAL, id);
    bool fail = w.plan->fail_rate > 0 && ((h >> 20) % 1000) < (uint64_t)(w.plan->fail_rate * 1000);
    xtp::Job::JobResult res;
    ExecRec &rr = w.ps[proc_].results[id];
    // the result text; structured plans: a nested property with attributes, as real calculators return
    auto set_output = [&](const std::string &text) {
      if (!w.plan->structured) { res.setOutput(text); rr.output = text; rr.has_output = true; return; }
      tools::Property root;
      tools::Property &out = root.add("output", "");
      out.add("token", text);
      tools::Property &pair = out.add("pair", "");
      pair.setAttribute("idA", std::to_string(id));
      pair.setAttribute("idB", std::to_string(id + 1));
      tools::Property &en = pair.add("energy", "0.125");
      en.setAttribute("unit", "eV");
      pair.add("state", "s" + std::to_string(id % 3));
      res.setOutput(root);
      rr.output = "<token>" + text + "</token><pairidA=\"" + std::to_string(id) + "\"idB=\"" + std::to_string(id + 1) + "\"><energyunit=\"eV\">0.125</energy><state>s" + std::to_string(id % 3) + "</state></pair>";
      rr.has_output = true;
    };
    if (fail) {
      res.setStatus(xtp::Job::FAILED);
      res.setError("error_of_execution_" + r.token);
      rr.status = "FAILED"; rr.error = "error_of_execution_" + r.token; rr.has_error = true;
      if (w.plan->fail_with_output) set_output("result_of_execution_" + r.token);
      w.counters["fault.job_failure"]++;
    } else if (w.plan->bare_results && ((h >> 33) % 3) == 0) {
      res.setStatus(xtp::Job::COMPLETE);   // a calculator may report success without any output
      rr.status = "COMPLETE";
    } else {
      res.setStatus(xtp::Job::COMPLETE);
      set_output("result_of_execution_" + r.token);
      rr.status = "COMPLETE";
    }
    rr.done = true;
    w.executing[j] = -1;
    sim::event(U_EVALEND, id, fail);
    sim::set_phase(old_phase);
    return res;
  }
  void set_jobfile(const std::string &f) { jobfile_ = f; }

 private:
  int proc_;
};

alignas(64) char g_fake_topology[1 << 16];

void process_body(int p) {
  World &w = *Wd;
  sim::Harness *prologue = new sim::Harness();  // harness code until the real calls start
  sim::set_phase(PH_GATE);
  while (!w.gate_open[p]) sim::block_on(sim::K_GATE, p);
  sim::set_phase(PH_INIT);
  ProcState &st = w.ps[p];
  const ProcSpec &sp = w.plan->procs[p];
  st.started = true;
  w.max_live = std::max(w.max_live, w.live());
  st.solo = (w.live() == 1);
  for (int q = 0; q < (int)w.ps.size(); q++) if (q != p && w.ps[q].started && !w.ended(q)) w.ps[q].solo = false;
  // restart pattern
  std::string pattern;
  {
    std::string hosts;
    auto add_host = [&](const std::string &h) { hosts += (hosts.empty() ? "" : ","); hosts += h; st.restart_hosts.insert(h); };
    if (sp.restart_oldhost) add_host("oldhost:1");
    for (int q : sp.restart_procs) add_host(host(q));
    if (sp.restart_all_dead)
      for (int q = 0; q < (int)w.ps.size(); q++) if (q != p && w.ps[q].dead) add_host(host(q));
    if (!hosts.empty()) pattern += "host(" + hosts + ")";
    std::string stats;
    auto add_stat = [&](const char *x) { stats += (stats.empty() ? "" : (p % 2 ? ", " : ",")); stats += x; st.restart_stats.insert(x); };
    if (sp.restart_failed) add_stat("FAILED");
    if (sp.restart_assigned) add_stat("ASSIGNED");
    if (sp.restart_complete) add_stat("COMPLETE");
    if (!stats.empty()) pattern += std::string(pattern.empty() ? "" : " ") + "stat(" + stats + ")";
  }
  for (int j = 0; j < w.plan->J; j++) if (w.claimable(w.T[j], p)) st.claimable_at_start.push_back(j + 1);
  w.note("start p" + std::to_string(p) + " threads=" + std::to_string(sp.threads) + " cache=" + std::to_string(sp.cache) + " maxjobs=" + std::to_string(sp.maxjobs) +
         (pattern.empty() ? "" : " restart='" + pattern + "'"));
  if (sp.is_restart()) w.counters["probe.restart_process_started"]++;
  delete prologue;
  try {
    StubCalc calc(p);
    xtp::ProgObserver<std::vector<xtp::Job>> obs;
    namespace po = boost::program_options;
    po::variables_map vm;
    vm.insert(std::make_pair(std::string("file"), po::variable_value(std::string(w.L), false)));
    vm.insert(std::make_pair(std::string("cache"), po::variable_value(Index(sp.cache), false)));
    vm.insert(std::make_pair(std::string("maxjobs"), po::variable_value(Index(sp.maxjobs), false)));
    vm.insert(std::make_pair(std::string("restart"), po::variable_value(pattern, false)));
    obs.InitCmdLineOpts(vm);
    calc.setnThreads(sp.threads);
    calc.setOpenMPThreads(1);
    calc.setProgObserver(&obs);
    tools::Property opts;
    opts.add("job_file", w.F);
    opts.add("map_file", "unused.xml");
    calc.Initialize(opts);
    const xtp::Topology &top = *reinterpret_cast<const xtp::Topology *>(g_fake_topology);
    calc.EvaluateFrame(top);
    { sim::Harness harness_scope; st.finished = true; }
  } catch (const std::exception &e) {
    sim::Harness harness_scope;
    st.abort_what = e.what();
    st.dead = true;
    w.note("p" + std::to_string(p) + " aborted: " + st.abort_what);
    // I4: a process may die of an exception only because an injected kill left the job file incomplete
    if (w.torn_by < 0) sim::abort_run("process-aborted", "p" + std::to_string(p) + " died of an exception although no injected kill had damaged the job file: " + st.abort_what);
    w.counters["probe.survivor_aborted_on_torn_file"]++;
  }
  sim::Harness epilogue;
  if (st.finished) w.note("p" + std::to_string(p) + " finished");
}

// ---------------------------------------------------------------------------
struct Jobs {
  using Plan = ::Plan;
  static const char *name() { return "c10_jobs"; }
  static const char *property() { return "C10"; }
  static std::string &scratch() { static std::string s; return s; }

  static void setup(int, char **argv) {
    load_static_table(argv[0]);
    const char *base = getenv("VERIF_SCRATCH");
    std::string b = base ? base : "/dev/shm";
    char tmpl[256];
    snprintf(tmpl, sizeof tmpl, "%s/c10_XXXXXX", b.c_str());
    if (!mkdtemp(tmpl)) sim::harness_error("cannot create a scratch directory under %s", b.c_str());
    scratch() = tmpl;
    atexit([] {
      std::string d = scratch();
      for (const char *f : {"jobs.xml", "jobs.xml~", "state.lock"}) unlink((d + "/" + f).c_str());
      rmdir(d.c_str());
    });
    // warm-up: one fault-free run without allocation points, so that function-local statics of the code under
    // test, boost and libstdc++ are initialised before any run can pre-empt a task inside such an initialiser
    // (the warm-up is the only run that is not isolated in a forked child: two single-threaded processes one after the
    // other, so that code under test which has lost a lock cannot corrupt the worker process before the first real run)
    Plan w = generate(12345, 0, "quick");
    w.kills.clear(); w.alloc_stride = 0; w.short_write = w.short_read = 0; w.enumerate = false;
    { ProcSpec a; a.threads = 1; a.cache = 2; ProcSpec b = a; b.restart_failed = true; b.start = ST_AFTER_END; b.start_ref = 0; w.procs.clear(); w.procs.push_back(a); w.procs.push_back(b); }
    w.structured = true; w.fail_rate = 0.4;
    (void)execute_one(w, sim::SchedSpec());
  }

  static Plan generate(uint64_t seed, long index, const std::string &tier) {
    sim::Rng r;
    r.seed(seed, (uint64_t)index * 2 + 1);
    Plan p;
    p.seed = seed;
    p.index = index;
    bool faulty = (index % 2) == 1;  // fault-free and fault-injecting plans are separate configurations
    p.J = r.chance(0.7) ? 1 + (int)r.below(8) : 1 + (int)r.below(24);
    bool history = r.chance(0.35);
    p.init_status.assign((size_t)p.J, 0);
    if (history) for (int j = 0; j < p.J; j++) if (r.chance(0.4)) p.init_status[(size_t)j] = 1 + (int)r.below(3) + (r.chance(0.3) ? 3 : 0);
    int P1 = 1 + (int)r.below(3);
    if (r.chance(0.15)) P1 = 4;
    for (int i = 0; i < P1; i++) {
      ProcSpec s;
      s.threads = 1 + (int)r.below(4);
      s.cache = 1 + (int)r.below(5);
      s.maxjobs = r.chance(0.7) ? -1 : 1 + (long)r.below((uint64_t)p.J);
      if (i > 0) {
        int k = (int)r.below(10);
        if (k < 6) s.start = ST_NOW;
        else if (k < 9) { s.start = ST_AFTER_SYNCS; s.start_ref = (int)r.below((uint64_t)i); s.start_k = 1 + (int)r.below(3); }
        else { s.start = ST_AFTER_END; s.start_ref = (int)r.below((uint64_t)i); }
      }
      s.skew = r.chance(0.3) ? r.range(-7200, 7200) : 0;
      p.procs.push_back(s);
    }
    p.fail_rate = r.chance(0.5) ? 0 : (r.chance(0.5) ? 0.15 : 0.4);
    p.fail_with_output = r.chance(0.5);
    p.eval_max = (int)r.below(5);
    p.fault_seed = r.next() >> 1;
    { int ticks[4] = {50, 50, 5, 1}; p.tick_ms = ticks[r.below(4)]; }
    p.bare_results = r.chance(0.3);
    p.structured = r.chance(0.4);
    if (faulty) {
      int nk = r.chance(0.75) ? 1 : 2;
      if (r.chance(0.1)) nk = 0;
      for (int i = 0; i < nk; i++) {
        KillSpec k;
        k.proc = (int)r.below((uint64_t)P1);
        int w = (int)r.below(100);
        k.at = w < 40 ? KA_WRITE : w < 50 ? KA_FOPEN : w < 60 ? KA_LOCKED : w < 68 ? KA_FCLOSE : w < 73 ? KA_READ : w < 80 ? KA_MUTEX : w < 85 ? KA_UNLOCK : KA_ANY;
        k.nth = k.at == KA_ANY ? 1 + (int)r.below(150) : 1 + (int)r.below(k.at == KA_WRITE ? 5 : 8);
        double fr[6] = {0.0, 0.02, 0.5, 0.9, 0.98, 1.0};
        k.frac = r.chance(0.4) ? fr[r.below(6)] : r.unit() * 1.15;
        k.file = r.chance(0.6) ? 0 : 1;
        k.sigterm = k.at != KA_WRITE && r.chance(0.3);
        if (k.at != KA_WRITE && r.chance(0.2)) { k.sigterm = false; int ss[3] = {40, 2000, 20000}; k.stall_s = ss[r.below(3)]; }
        p.kills.push_back(k);
      }
      p.short_write = r.chance(0.5) ? 0 : (r.chance(0.5) ? 0.1 : 0.4);
      p.short_read = r.chance(0.7) ? 0 : 0.2;
      if (r.chance(0.2)) { p.clock_jump_step = (long)r.below(400); p.clock_jump = r.range(-86400, 86400); }
    }
    // a restart process that joins while others are still running
    if (r.chance(0.3) && p.procs.size() < 5) {
      ProcSpec s;
      s.threads = 1 + (int)r.below(3);
      s.cache = 1 + (int)r.below(4);
      s.maxjobs = r.chance(0.8) ? -1 : 1 + (long)r.below((uint64_t)p.J);
      int k = (int)r.below(3);
      if (k == 0 || !history) s.restart_failed = true;
      else if (k == 1) s.restart_oldhost = true;
      else { s.restart_failed = true; s.restart_oldhost = true; }
      if (r.chance(0.3)) {  // name a phase-1 process, start only after it has ended
        int q = (int)r.below((uint64_t)P1);
        s.restart_procs.push_back(q);
        s.start = ST_AFTER_END;
        s.start_ref = q;
      } else if (r.chance(0.5)) {
        s.start = ST_AFTER_SYNCS; s.start_ref = (int)r.below((uint64_t)P1); s.start_k = 1 + (int)r.below(4);
      } else {
        s.start = ST_NOW;
      }
      p.procs.push_back(s);
    }
    // a second restart process with the same kind of pattern, started together with the first or shortly after
    if (p.procs.size() < 5 && !p.procs.empty() && p.procs.back().is_restart() && p.procs.back().restart_procs.empty() && r.chance(0.35)) {
      ProcSpec s = p.procs.back();
      s.threads = 1 + (int)r.below(2);
      s.cache = 1 + (int)r.below(4);
      if (r.chance(0.5)) { s.start = ST_AFTER_SYNCS; s.start_ref = (int)p.procs.size() - 1; s.start_k = 1; }
      p.procs.push_back(s);
    }
    // phase 2: after quiescence, a restart process that names every dead host
    if ((faulty && r.chance(0.7)) || r.chance(0.2)) {
      ProcSpec s;
      s.threads = 1 + (int)r.below(3);
      s.cache = 1 + (int)r.below(5);
      s.maxjobs = -1;
      s.restart_all_dead = true;
      s.restart_failed = r.chance(0.5);
      s.restart_assigned = r.chance(0.25);
      s.restart_complete = r.chance(0.15);
      s.restart_oldhost = history && r.chance(0.5);
      s.start = ST_PHASE2;
      p.procs.push_back(s);
      if (r.chance(0.3)) {  // two sweepers with the same pattern race for the same jobs
        // stat(ASSIGNED) / stat(COMPLETE) would name jobs of the other, live sweeper: double assignment by design, not generated
        p.procs.back().restart_assigned = p.procs.back().restart_complete = false;
        s.restart_assigned = s.restart_complete = false;
        s.threads = 1 + (int)r.below(2);
        s.cache = 1 + (int)r.below(3);
        p.procs.push_back(s);
      }
    }
    // crashes are not a privilege of the first generation: a restart process that joined, or a sweeper working on the
    // remains of earlier crashes, may be killed as well (crash during recovery)
    for (auto &k : p.kills) if (r.chance(0.3)) k.proc = (int)r.below((uint64_t)p.procs.size());
    { long strides[8] = {0, 0, 0, 0, 1, 2, 3, 7}; p.alloc_stride = strides[r.below(8)]; }
    p.pick_strategy(r);
    if (tier == "enum") {
      // small fault-free base plans: <= 2 phase-1 processes, <= 4 jobs, a phase-2 sweeper that names the dead
      Plan e;
      e.seed = p.seed; e.index = p.index; e.sched_seed = p.sched_seed; e.strat_type = p.strat_type; e.strat_p = p.strat_p; e.strat_d = p.strat_d;
      e.J = 1 + (int)r.below(4);
      e.init_status.assign((size_t)e.J, 0);
      if (r.chance(0.3)) for (int j = 0; j < e.J; j++) if (r.chance(0.4)) e.init_status[(size_t)j] = 1 + (int)r.below(6);
      int P1 = 1 + (int)r.below(2);
      for (int i = 0; i < P1; i++) {
        ProcSpec s;
        s.threads = 1 + (int)r.below(2);
        s.cache = 1 + (int)r.below(3);
        s.maxjobs = r.chance(0.8) ? -1 : 1 + (long)r.below((uint64_t)e.J);
        if (i > 0 && r.chance(0.4)) { s.start = ST_AFTER_SYNCS; s.start_ref = 0; s.start_k = 1 + (int)r.below(2); }
        if (i > 0 && r.chance(0.3)) { s.restart_failed = true; }
        e.procs.push_back(s);
      }
      ProcSpec sw;
      sw.threads = 1; sw.cache = 2; sw.maxjobs = -1; sw.restart_all_dead = true; sw.restart_failed = r.chance(0.5); sw.start = ST_PHASE2;
      e.procs.push_back(sw);
      e.fail_rate = r.chance(0.5) ? 0 : 0.3;
      e.fail_with_output = r.chance(0.5);
      e.eval_max = (int)r.below(3);
      e.fault_seed = p.fault_seed;
      e.enumerate = true;
      // every second enumerated plan of the thorough tier cuts every rewrite at every single byte
      if (index % 2 == 1 && e.J <= 2) e.enum_full_below = 2000;
      return e;
    }
    return p;
  }

  static js::Value to_json(const Plan &p) {
    js::Value v = js::Value::obj();
    p.base_to_json(v);
    v.set("J", p.J).set("init_status", js::Value::arr_of(p.init_status));
    js::Value ps = js::Value::arr();
    for (auto &s : p.procs) {
      js::Value o = js::Value::obj();
      o.set("threads", s.threads).set("cache", s.cache).set("maxjobs", s.maxjobs).set("restart_failed", s.restart_failed).set("restart_assigned", s.restart_assigned).set("restart_complete", s.restart_complete).set("restart_oldhost", s.restart_oldhost)
       .set("restart_procs", js::Value::arr_of(s.restart_procs)).set("restart_all_dead", s.restart_all_dead).set("start", s.start).set("start_ref", s.start_ref)
       .set("start_k", s.start_k).set("skew", s.skew);
      ps.push(o);
    }
    v.set("procs", ps);
    js::Value ks = js::Value::arr();
    for (auto &k : p.kills) {
      js::Value o = js::Value::obj();
      o.set("proc", k.proc).set("at", k.at).set("at_name", killat_name[k.at]).set("nth", k.nth).set("frac", k.frac).set("file", k.file).set("abs_bytes", k.abs_bytes).set("sigterm", k.sigterm).set("stall_s", k.stall_s);
      ks.push(o);
    }
    v.set("kills", ks);
    v.set("short_write", p.short_write).set("short_read", p.short_read).set("fail_rate", p.fail_rate).set("fail_with_output", p.fail_with_output)
     .set("eval_max", p.eval_max).set("fault_seed", (long long)p.fault_seed).set("clock_jump_step", p.clock_jump_step).set("clock_jump", p.clock_jump).set("enumerate", p.enumerate).set("enum_full_below", p.enum_full_below).set("tick_ms", p.tick_ms).set("bare_results", p.bare_results).set("structured", p.structured).set("alloc_stride", p.alloc_stride);
    return v;
  }
  static Plan from_json(const js::Value &v) {
    Plan p;
    p.base_from_json(v);
    p.J = (int)v.num("J", 1);
    for (auto &x : v.at("init_status").a) p.init_status.push_back((int)x.i);
    for (auto &o : v.at("procs").a) {
      ProcSpec s;
      s.threads = (int)o.num("threads", 1); s.cache = (int)o.num("cache", 1); s.maxjobs = (long)o.num("maxjobs", -1);
      s.restart_failed = o.at("restart_failed").b; s.restart_assigned = o.has("restart_assigned") && o.at("restart_assigned").b; s.restart_complete = o.has("restart_complete") && o.at("restart_complete").b; s.restart_oldhost = o.at("restart_oldhost").b; s.restart_all_dead = o.at("restart_all_dead").b;
      for (auto &x : o.at("restart_procs").a) s.restart_procs.push_back((int)x.i);
      s.start = (int)o.num("start", 0); s.start_ref = (int)o.num("start_ref", 0); s.start_k = (int)o.num("start_k", 1); s.skew = (long)o.num("skew", 0);
      p.procs.push_back(s);
    }
    for (auto &o : v.at("kills").a) {
      KillSpec k;
      k.proc = (int)o.num("proc", 0); k.at = (int)o.num("at", 0); k.nth = (int)o.num("nth", 1); k.frac = o.at("frac").d; k.file = (int)o.num("file", 0); k.abs_bytes = (long)o.num("abs_bytes", -1); k.sigterm = o.has("sigterm") && o.at("sigterm").b; k.stall_s = (int)o.num("stall_s", 0);
      p.kills.push_back(k);
    }
    p.short_write = v.at("short_write").d; p.short_read = v.at("short_read").d; p.fail_rate = v.at("fail_rate").d; p.fail_with_output = v.at("fail_with_output").b;
    p.eval_max = (int)v.num("eval_max", 0); p.fault_seed = (uint64_t)v.num("fault_seed", 0); p.clock_jump_step = (long)v.num("clock_jump_step", -1);
    p.clock_jump = (long)v.num("clock_jump", 0);
    p.enumerate = v.has("enumerate") && v.at("enumerate").b;
    p.alloc_stride = (long)v.num("alloc_stride", 0);
    p.enum_full_below = (int)v.num("enum_full_below", 160);
    p.tick_ms = (int)v.num("tick_ms", 50);
    p.bare_results = v.has("bare_results") && v.at("bare_results").b;
    p.structured = v.has("structured") && v.at("structured").b;
    return p;
  }

  // remove process i from a plan, re-targeting references
  static bool drop_proc(Plan &q, int i) {
    if (q.procs.size() <= 1) return false;
    for (size_t k = 0; k < q.procs.size(); k++) {
      if ((int)k == i) continue;
      ProcSpec &s = q.procs[k];
      if (s.start != ST_NOW && s.start != ST_PHASE2) {
        if (s.start_ref == i) { s.start = ST_NOW; s.start_ref = 0; }
        else if (s.start_ref > i) s.start_ref--;
      }
      std::vector<int> rp;
      for (int x : s.restart_procs) { if (x == i) continue; rp.push_back(x > i ? x - 1 : x); }
      s.restart_procs = rp;
    }
    q.procs.erase(q.procs.begin() + i);
    std::vector<KillSpec> ks;
    for (auto k : q.kills) { if (k.proc == i) continue; if (k.proc > i) k.proc--; ks.push_back(k); }
    q.kills = ks;
    return true;
  }

  static std::vector<Plan> simplify(const Plan &p) {
    std::vector<Plan> out;
    for (int i = (int)p.procs.size() - 1; i >= 0; i--) { Plan q = p; if (drop_proc(q, i)) out.push_back(q); }
    for (size_t i = 0; i < p.kills.size(); i++) { Plan q = p; q.kills.erase(q.kills.begin() + (long)i); out.push_back(q); }
    if (p.J > 1) {
      Plan q = p; q.J = std::max(1, p.J / 2); q.init_status.resize((size_t)q.J); for (auto &s : q.procs) if (s.maxjobs > q.J) s.maxjobs = q.J; out.push_back(q);
      q = p; q.J = p.J - 1; q.init_status.resize((size_t)q.J); for (auto &s : q.procs) if (s.maxjobs > q.J) s.maxjobs = q.J; out.push_back(q);
    }
    if (p.short_write > 0) { Plan q = p; q.short_write = 0; out.push_back(q); }
    if (p.short_read > 0) { Plan q = p; q.short_read = 0; out.push_back(q); }
    if (p.fail_rate > 0) { Plan q = p; q.fail_rate = 0; out.push_back(q); }
    if (p.clock_jump_step >= 0) { Plan q = p; q.clock_jump_step = -1; out.push_back(q); }
    if (p.eval_max > 0) { Plan q = p; q.eval_max = 0; out.push_back(q); }
    if (p.bare_results) { Plan q = p; q.bare_results = false; out.push_back(q); }
    if (p.structured) { Plan q = p; q.structured = false; out.push_back(q); }
    if (p.tick_ms != 50) { Plan q = p; q.tick_ms = 50; out.push_back(q); }
    if (p.alloc_stride > 0) { Plan q = p; q.alloc_stride = 0; out.push_back(q); q = p; q.alloc_stride = p.alloc_stride * 4; out.push_back(q); }
    bool hist = false;
    for (int s : p.init_status) if (s) hist = true;
    if (hist) { Plan q = p; std::fill(q.init_status.begin(), q.init_status.end(), 0); out.push_back(q); }
    for (size_t i = 0; i < p.procs.size(); i++) {
      const ProcSpec &s = p.procs[i];
      if (s.threads > 1) { Plan q = p; q.procs[i].threads = 1; out.push_back(q); }
      if (s.restart_assigned) { Plan q = p; q.procs[i].restart_assigned = false; out.push_back(q); }
      if (s.restart_complete) { Plan q = p; q.procs[i].restart_complete = false; out.push_back(q); }
      if (s.cache > 1) { Plan q = p; q.procs[i].cache = 1; out.push_back(q); }
      if (s.maxjobs >= 0) { Plan q = p; q.procs[i].maxjobs = -1; out.push_back(q); }
      if (s.skew != 0) { Plan q = p; q.procs[i].skew = 0; out.push_back(q); }
      if (s.start == ST_AFTER_SYNCS && s.start_k > 1) { Plan q = p; q.procs[i].start_k = 1; out.push_back(q); }
      if (s.start == ST_AFTER_SYNCS || s.start == ST_AFTER_END) { if (s.restart_procs.empty()) { Plan q = p; q.procs[i].start = ST_NOW; out.push_back(q); } }
    }
    for (size_t i = 0; i < p.kills.size(); i++) {
      if (p.kills[i].nth > 1) { Plan q = p; q.kills[i].nth = p.kills[i].nth - 1; out.push_back(q); q = p; q.kills[i].nth = 1; out.push_back(q); }
    }
    if (p.strat_type != sim::Strategy::RW) { Plan q = p; q.strat_type = sim::Strategy::RW; out.push_back(q); }
    return out;
  }

  static std::string initial_file(const Plan &p, std::vector<JobRec> &T) {
    std::ostringstream o;
    o << "<jobs>\n";
    T.clear();
    for (int j = 0; j < p.J; j++) {
      JobRec t;
      t.id = j + 1;
      t.tag = "tag" + std::to_string(j + 1);
      t.input = "in" + std::to_string(j + 1);
      std::string input_xml = t.input, old_output_xml = "oldout" + std::to_string(j + 1);
      if (p.structured) {
        input_xml = "\n\t\t\t<segment id=\"" + std::to_string(j) + "\" type=\"n\">seg" + std::to_string(j) + "</segment>\n\t\t\t<regions>\n\t\t\t\t<region id=\"0\">" + std::to_string(j) +
                    ":s1</region>\n\t\t\t</regions>\n\t\t";
        old_output_xml = "\n\t\t\t<token>oldout" + std::to_string(j + 1) + "</token>\n\t\t\t<pair idA=\"" + std::to_string(j + 1) + "\" idB=\"" + std::to_string(j + 2) + "\">\n\t\t\t\t<energy unit=\"eV\">0.5</energy>\n\t\t\t</pair>\n\t\t";
        t.input = strip_ws(input_xml);
      }
      int s0 = p.init_status[(size_t)j];
      int s = s0 > 3 ? s0 - 3 : s0;
      const char *oldhost = s0 > 3 ? "oldhost:12" : "oldhost:1";  // only oldhost:1 is ever named by a restart pattern
      t.status = s == 0 ? "AVAILABLE" : s == 1 ? "COMPLETE" : s == 2 ? "FAILED" : "ASSIGNED";
      o << "\t<job>\n\t\t<id>" << t.id << "</id>\n\t\t<tag>" << t.tag << "</tag>\n\t\t<input>" << input_xml << "</input>\n\t\t<status>" << t.status << "</status>\n";
      if (s != 0) {
        t.host = oldhost; t.has_host = true;
        o << "\t\t<host>" << oldhost << "</host>\n\t\t<time>10:00:00</time>\n";
        if (s == 1) { t.output = strip_ws(old_output_xml); t.has_output = true; o << "\t\t<output>" << old_output_xml << "</output>\n"; }
        if (s == 2) { t.error = "olderr" + std::to_string(j + 1); t.has_error = true; o << "\t\t<error>" << t.error << "</error>\n"; }
      }
      o << "\t</job>\n";
      T.push_back(t);
    }
    o << "</jobs>\n";
    return o.str();
  }

  static sim::Report execute_one(const Plan &plan, const sim::SchedSpec &spec, World *keep = nullptr) {
    sim::Report rep;
    World w;
    Wd = &w;
    w.plan = &plan;
    w.dir = scratch();
    w.F = w.dir + "/jobs.xml";
    w.FB = w.dir + "/jobs.xml~";
    w.L = w.dir + "/state.lock";
    unlink(w.FB.c_str());
    std::string init = initial_file(plan, w.T);
    simio::raw_write_file(w.F, init);
    simio::raw_write_file(w.L, "state\n");
    size_t NP = plan.procs.size();
    w.claim_gen.assign((size_t)plan.J, 0);
    w.exec_gen.assign((size_t)plan.J, 0);
    w.executing.assign((size_t)plan.J, -1);
    w.ps.assign(NP, ProcState());
    w.gate_open.assign(NP, false);
    for (int k = 0; k < KA_N; k++) w.kill_count[k].assign(NP, 0);
    for (int f = 0; f < 2; f++) { w.rewrites[f].assign(NP, 0); w.rewrite_bytes[f].assign(NP, 0); w.rewrite_target[f].assign(NP, -1); w.rewrite_sizes[f].assign(NP, std::vector<long>()); }
    w.last_size = (long)init.size();
    w.kill_done.assign(plan.kills.size(), false);
    w.frng.seed(plan.fault_seed, 0xfa17);
    simio::reset(&w);
    sim::pthread_layer_reset();

    sim::Config cfg;
    spec.apply(cfg, plan);
    cfg.budget = 400000;
    for (auto &k : plan.kills) if (k.stall_s > 0) cfg.budget += 10L * k.stall_s;  // tasks that poll while a process is suspended
    cfg.pct_span = 600;
    cfg.tick_ns = (long long)plan.tick_ms * 1000000LL;
    std::vector<uint64_t> states;
    std::streambuf *old_out = std::cout.rdbuf();
    struct NullBuf : std::streambuf { int overflow(int c) override { return c; } std::streamsize xsputn(const char *, std::streamsize n) override { return n; } } nb;
    std::cout.rdbuf(&nb);
    if (!g_statics.empty()) { statics_load(g_static_pristine); g_static_copies.assign(NP + 2, g_static_pristine); rep.counters["probe.per_process_statics"] = (long)g_statics.size(); }
    sim::Result res = sim::run(cfg, [&] {
      if (!g_statics.empty())
        sim::set_on_proc_switch([](int from, int to) {
          if ((size_t)from < g_static_copies.size()) statics_store(g_static_copies[(size_t)from]);
          if ((size_t)to < g_static_copies.size()) statics_load(g_static_copies[(size_t)to]);
        });
      sim::set_on_decision([&] { if (states.size() < 200000) states.push_back(sim::abstract_state()); });
      // allocation points: only in worker threads of the simulated processes while they hold no thread mutex. In
      // correct code that is the job-operator loop around EvalJob; code that should be inside a critical section but
      // is not (a missing lockThread_) becomes pre-emptible between its individual allocations.
      if (plan.alloc_stride > 0)
        sim::set_alloc_points(plan.alloc_stride, (long)(plan.fault_seed % 1000), [&w] {
          int sp = sim::self_proc();
          if (sp < 1) return false;
          int t = sim::self();
          return t != w.ps[(size_t)sp - 1].main_task && sim::mutexes_held(t) == 0;
        });
      sim::set_on_idle([&] { return w.on_idle(); });
      sim::set_on_proc_death([&](int p) {
        if (p == 0) return;           // process 0 is the harness itself (this task)
        int q = p - 1;
        if (!w.ps[q].finished) w.ps[q].dead = true;
        for (auto &e : w.executing) if (e != -1 && sim::task_proc((int)e) == p) e = -1;  // its executions died with it
        simio::process_died(p);        // closes descriptors, drops locks -> lock_event -> sync_completed
        w.open_gates();
      });
      sim::set_on_uncaught([&](int task, const std::string &what) {
        int q = sim::task_proc(task) - 1;
        if (q < 0) return;
        w.ps[q].abort_what = "uncaught exception in a thread: " + what;
        w.ps[q].dead = true;
        w.note("p" + std::to_string(q) + " terminate: " + what);
        if (w.torn_by < 0) sim::abort_run("process-aborted", "p" + std::to_string(q) + " terminated by an exception in a worker thread although no injected kill had damaged the job file: " + what);
        w.counters["probe.survivor_aborted_on_torn_file"]++;
      });
      sim::set_on_point([&](int kind, long obj) {
        int sp = sim::self_proc();
        if (sp <= 0) return;
        int q = sp - 1;
        if (w.ps[q].killed) return;
        auto hit = [&](int at) {
          w.kill_count[at][q]++;
          if (w.kill_due(q, at)) {
            int stall = 0;
            for (auto &k : w.plan->kills) if (k.proc == q && k.at == at && k.stall_s > 0) stall = k.stall_s;
            if (stall > 0) {
              w.counters["fault.stall"]++;
              if (simio::lock_mode_of(sp)) w.counters["probe.stall_while_holding_file_lock"]++;
              w.note("STALL p" + std::to_string(q) + " for " + std::to_string(stall) + " ticks at " + killat_name[at]);
              sim::sleep_ns((long long)stall * sim::tick_ns());
              return;
            }
            bool term = false;
            for (auto &k : w.plan->kills) if (k.proc == q && k.at == at && k.sigterm) term = true;
            if (term) w.ps[q].killed = true;   // whatever the handler does, the termination was injected
            if (term && simio::deliver_signal(sp, 15)) {
              w.ps[q].killed = false;
              w.ps[q].asked_to_stop = true;   // a handler ran and returned: the process lives on
              w.counters["fault.sigterm_handled"]++;
              w.note("SIGTERM handled by p" + std::to_string(q));
              return;
            }
            if (term) w.counters["fault.sigterm_default_action"]++;
            w.ps[q].killed = true;
            w.kill_probe(q);
            w.counters["fault.kill"]++;
            w.counters[std::string("fault.kill_at_") + killat_name[at]]++;
            if (simio::lock_mode_of(sp)) w.counters["probe.kill_while_holding_file_lock"]++;
            w.note("KILL p" + std::to_string(q) + " at " + killat_name[at] + " point (" + sim::kind_name(kind) + ":" + std::to_string(obj) + ")");
            sim::kill_process(sp);
          }
        };
        if (kind == sim::K_WRITE && obj != simio::FILE_OTHER) return;  // job file / backup: handled inside the write itself (partial effect)
        hit(KA_ANY);
        if (kind == sim::K_FOPEN) hit(KA_FOPEN);
        else if (kind == sim::K_FCLOSE) hit(KA_FCLOSE);
        else if (kind == sim::K_READ) hit(KA_READ);
        else if (kind == sim::K_MLOCK || kind == sim::K_MUNLOCK) hit(KA_MUTEX);
        else if (kind == sim::K_FUNLOCK) hit(KA_UNLOCK);
        else if (kind == sim::K_GETPID && simio::lock_mode_of(sp)) hit(KA_LOCKED);
      });
      // process 0 of the simulator is the harness; simulated processes are 1..NP
      for (size_t p = 0; p < NP; p++) {
        int sp = sim::new_process();
        int t = sim::spawn_task([p] { process_body((int)p); }, sp, "procmain", 4u << 20);
        w.ps[p].main_task = t;
      }
      w.open_gates();
    });
    std::cout.rdbuf(old_out);
    Wd = nullptr;
    (void)res;
    finish(plan, w, res, states, rep);
    if (keep) { keep->kill_count[KA_ANY] = w.kill_count[KA_ANY]; for (int f = 0; f < 2; f++) keep->rewrite_sizes[f] = w.rewrite_sizes[f]; }
    return rep;
  }

  // Crash-point enumeration (thorough tier): the plan is run once without faults, then once per decision point
  // of every phase-1 process with a kill at exactly that point, and once per chosen byte offset of every rewrite
  // of the job file and of the backup with a kill inside that write.  Scheduler seed and strategy are those of
  // the plan, so each sub-run follows the base run's schedule up to the kill.
  static sim::Report execute(const Plan &plan, const sim::SchedSpec &spec) {
    if (!plan.enumerate || spec.mode != sim::SchedSpec::FROM_PLAN) return execute_one(plan, spec);
    World base;
    Plan p0 = plan;
    p0.enumerate = false;
    sim::Report rep = execute_one(p0, spec, &base);
    if (!rep.cls.empty()) { rep.replacement_plan = to_json(p0); return rep; }
    long points = 0, writes = 0;
    size_t nproc = 0;
    for (size_t q = 0; q < plan.procs.size(); q++) if (plan.procs[q].start != ST_PHASE2) nproc = q + 1;
    auto sub = [&](const KillSpec &k) -> bool {
      Plan p = p0;
      p.kills.clear();
      p.kills.push_back(k);
      sim::Report r = execute_one(p, spec);
      rep.steps += r.steps; rep.multi += r.multi; rep.switches += r.switches; rep.sim_time += r.sim_time;
      for (auto &kv : r.counters) if (kv.first.compare(0, 7, "config.") != 0) rep.counters[kv.first] += kv.second;
      for (uint64_t st : r.states) rep.states.push_back(st);
      if (!r.cls.empty()) {
        r.replacement_plan = to_json(p);
        r.counters = rep.counters;
        r.states = rep.states;
        r.counters["enum.crash_points"] = points + writes;
        rep = r;
        return false;
      }
      return true;
    };
    for (size_t q = 0; q < nproc; q++) {
      int n = q < base.kill_count[KA_ANY].size() ? base.kill_count[KA_ANY][q] : 0;
      for (int t = 1; t <= n; t++) {
        KillSpec k; k.proc = (int)q; k.at = KA_ANY; k.nth = t;
        points++;
        if (!sub(k)) return rep;
      }
      for (int f = 0; f < 2; f++) {
        if (q >= base.rewrite_sizes[f].size()) continue;
        const std::vector<long> &sizes = base.rewrite_sizes[f][q];
        for (size_t rw = 0; rw < sizes.size(); rw++) {
          long B = sizes[rw];
          std::vector<long> offs;
          if (B <= plan.enum_full_below) for (long o = 0; o <= B; o++) offs.push_back(o);
          else { for (long o = 0; o <= B; o += 23) offs.push_back(o); offs.push_back(1); offs.push_back(B / 2); offs.push_back(B - 1); offs.push_back(B); }
          for (long o : offs) {
            KillSpec k; k.proc = (int)q; k.at = KA_WRITE; k.nth = (int)rw + 1; k.file = f; k.abs_bytes = o;
            writes++;
            if (!sub(k)) return rep;
          }
        }
      }
    }
    std::sort(rep.states.begin(), rep.states.end());
    rep.states.erase(std::unique(rep.states.begin(), rep.states.end()), rep.states.end());
    rep.counters["enum.crash_points"] = points + writes;
    rep.counters["enum.kill_at_decision_point"] = points;
    rep.counters["enum.kill_inside_write"] = writes;
    rep.counters["enum.base_plans"] = 1;
    return rep;
  }

  template <class Fail> static void end_checks(const Plan &plan, World &w, Fail &fail) {
    // H1: the final job file lists every job exactly once and equals the validated table
    std::string c;
    std::vector<JobRec> recs;
    bool ok = simio::raw_read_file(w.F, c) && scan_jobs(c, recs) && w.ids_complete(recs);
    if (!ok) { fail("final-file-incomplete", "after all workers finished the job file is not a complete job list"); return; }
    for (int j = 0; j < plan.J; j++) {
      const JobRec &f = recs[(size_t)j], &t = w.T[(size_t)j];
      bool terminal = f.status == "COMPLETE" || f.status == "FAILED";
      if (f.status != t.status || f.host != t.host || (terminal && (f.output != t.output || f.error != t.error || f.has_error != t.has_error || f.has_output != t.has_output))) {
        fail("unvalidated-change", "job " + std::to_string(j + 1) + " differs from the last validated state (" + t.status + "/" + t.host + " vs " + f.status + "/" + f.host + ")");
        return;
      }
    }
    // every process that exited normally has published everything it executed
    for (size_t p = 0; p < w.ps.size(); p++) {
      if (!w.ps[p].finished) continue;
      for (auto &kv : w.ps[p].results)
        if (kv.second.done && !kv.second.published) {
          fail("unpublished-result", "p" + std::to_string(p) + " exited normally but its result for job " + std::to_string(kv.first) + " (" + kv.second.token + ") never reached the job file");
          return;
        }
    }
    // never lost: a job may stay AVAILABLE only if every process that ran to completion was stopped by its maxjobs limit
    int avail = 0;
    for (auto &t : w.T) if (t.status == "AVAILABLE") avail++;
    if (avail > 0) {
      for (size_t p = 0; p < w.ps.size(); p++) {
        if (!w.ps[p].finished || w.ps[p].asked_to_stop) continue;  // a process that was asked to terminate may leave jobs behind
        const ProcSpec &sp = plan.procs[p];
        if (sp.maxjobs < 0 || w.ps[p].claims < sp.maxjobs) {
          fail("job-left-behind", std::to_string(avail) + " job(s) are still AVAILABLE although p" + std::to_string(p) + " ran to completion without reaching a maxjobs limit");
          return;
        }
      }
    }
    // H3: a restart process that ran alone re-opens exactly the available jobs and those its pattern names
    for (size_t p = 0; p < w.ps.size(); p++) {
      const ProcState &st = w.ps[p];
      const ProcSpec &sp = plan.procs[p];
      if (!st.finished || !st.solo || st.asked_to_stop) continue;
      std::vector<long> ex = st.executed, want = st.claimable_at_start;
      if (sp.maxjobs >= 0 && (long)want.size() > sp.maxjobs) want.resize((size_t)sp.maxjobs);
      std::sort(ex.begin(), ex.end());
      if (ex != want) {
        std::string a, b;
        for (long x : ex) a += std::to_string(x) + " ";
        for (long x : want) b += std::to_string(x) + " ";
        fail(sp.is_restart() ? "restart-mismatch" : "solo-mismatch", "p" + std::to_string(p) + " ran alone and executed jobs { " + a + "} but exactly { " + b + "} were available or named by its restart pattern");
        return;
      }
      w.counters[sp.is_restart() ? "check.solo_restart_exact" : "check.solo_exact"]++;
    }
  }

  static sim::Report &finish(const Plan &plan, World &w, sim::Result &res, std::vector<uint64_t> &states, sim::Report &rep) {
    rep.absorb(res);
    rep.decisions = res.decisions;
    rep.deviations = res.deviations;
    rep.trace = res.trace;
    rep.diverged = res.outcome == sim::RUN_DIVERGED;
    rep.sim_time = (long)(res.steps * (long long)plan.tick_ms / 1000);
    std::sort(states.begin(), states.end());
    states.erase(std::unique(states.begin(), states.end()), states.end());
    rep.states = states;
    sim::MutexObs mo = sim::mutex_obs();
    rep.counters["obs.unlock_by_non_owner"] = mo.unlock_by_non_owner;
    rep.counters["obs.destroy_while_locked"] = mo.destroy_while_locked;
    if (plan.alloc_stride > 0) rep.counters["probe.alloc_points_enabled"] = 1;
    rep.counters[std::string("config.") + (plan.kills.empty() && plan.short_write == 0 && plan.short_read == 0 ? "fault_free" : "fault_injecting")] = 1;
    if (w.max_live >= 2) rep.counters["probe.two_processes_alive"] = 1;
    if (res.max_blocked >= 3) rep.counters["probe.three_tasks_blocked"] = 1;
    rep.history = w.hist;
    auto fail = [&](const std::string &cls, const std::string &detail) {
      if (rep.cls.empty()) { rep.cls = cls; rep.key = cls; rep.detail = detail; }
    };
    switch (res.outcome) {
      case sim::RUN_DIVERGED: break;
      case sim::RUN_DEADLOCK: fail("deadlock", res.deadlock_graph); break;
      case sim::RUN_BUDGET: fail("livelock", "step budget exhausted"); break;
      case sim::RUN_ABORTED: fail(res.abort_class, res.abort_detail); break;
      default: break;
    }
    if (res.outcome == sim::RUN_OK) end_checks(plan, w, fail);
    for (auto &kv : w.counters) rep.counters[kv.first] += kv.second;
    return rep;
  }
};

}  // namespace

int main(int argc, char **argv) { return sim::Driver<Jobs>::main(argc, argv); }
