// Deterministic simulator core: cooperative tasks (ucontext coroutines) on one
// OS thread, a seeded scheduler that makes every choice, simulated processes,
// trace / fingerprint / replay.  See /verif/DESIGN.md section 2.
#pragma once
#include <cstdint>
#include <cstdio>
#include <functional>
#include <string>
#include <vector>

namespace sim {

// ---------------------------------------------------------------- PRNG ----
struct Rng {
  uint64_t s[4];
  static uint64_t splitmix(uint64_t &x) {
    uint64_t z = (x += 0x9E3779B97F4A7C15ull);
    z = (z ^ (z >> 30)) * 0xBF58476D1CE4E5B9ull;
    z = (z ^ (z >> 27)) * 0x94D049BB133111EBull;
    return z ^ (z >> 31);
  }
  void seed(uint64_t a, uint64_t stream = 0) {
    uint64_t x = a * 0x9E3779B97F4A7C15ull + stream * 0xD1B54A32D192ED03ull + 0x1234567;
    for (auto &v : s) v = splitmix(x);
  }
  static uint64_t rotl(uint64_t x, int k) { return (x << k) | (x >> (64 - k)); }
  uint64_t next() {
    uint64_t r = rotl(s[1] * 5, 7) * 9, t = s[1] << 17;
    s[2] ^= s[0]; s[3] ^= s[1]; s[1] ^= s[2]; s[0] ^= s[3]; s[2] ^= t; s[3] = rotl(s[3], 45);
    return r;
  }
  // uniform in [0,n)
  uint64_t below(uint64_t n) { return n ? next() % n : 0; }
  long range(long lo, long hi) { return lo + (long)below((uint64_t)(hi - lo + 1)); }  // inclusive
  double unit() { return (double)(next() >> 11) * (1.0 / 9007199254740992.0); }
  bool chance(double p) { return unit() < p; }
  template <class T> const T &pick(const std::vector<T> &v) { return v[below(v.size())]; }
};

inline uint64_t hmix(uint64_t h, uint64_t v) {
  h ^= v + 0x9E3779B97F4A7C15ull + (h << 6) + (h >> 2);
  h *= 0xff51afd7ed558ccdull;
  return h ^ (h >> 32);
}

// ------------------------------------------------------------- kinds ------
enum Kind : int {
  K_NONE = 0,
  K_CREATE, K_START, K_JOIN, K_JOINED, K_EXIT,
  K_MLOCK, K_MLOCKED, K_MUNLOCK, K_MINIT, K_MDESTROY,
  K_GATE,
  // process / file layer (c10)
  K_GETPID, K_TIME, K_OPEN, K_CLOSE, K_FLOCK, K_FLOCKED, K_FUNLOCK,
  K_FOPEN, K_FCLOSE, K_WRITE, K_READ,
  K_SLEEP,  // nanosleep / usleep / sleep / sched_yield: the task is not runnable until simulated time has advanced
  K_ALLOC,  // a sampled C++ allocation (operator new) used as pre-emption point inside otherwise opaque code
  // harness points: K_USER + n
  K_USER = 64
};
const char *kind_name(int k);

enum Outcome { RUN_OK = 0, RUN_DEADLOCK, RUN_BUDGET, RUN_ABORTED, RUN_DIVERGED };

struct Strategy {
  enum Type { RW = 0, STICKY, PCT, REPLAY, DEFAULT } type = RW;
  double p = 0.8;  // sticky
  int d = 2;       // pct depth
  std::string name() const;
};

struct Config {
  uint64_t sched_seed = 1;
  Strategy strat;
  long budget = 100000;          // decision points
  std::vector<int> replay;       // REPLAY: chosen task at each multi-choice decision
  bool replay_strict = true;     // divergence -> RUN_DIVERGED; else fall back to default policy
  // deviations from default policy: (multi-choice index, task). used by the shrinker
  std::vector<std::pair<long, int>> deviations;
  bool use_deviations = false;
  bool trace = false;            // keep a human readable trace
  long pct_span = 200;           // pct change points are drawn in [0,pct_span)
  long long tick_ns = 50000000LL; // simulated time per decision point
};

struct Event { long step; int task; int kind; long obj; long a; };

// ------------------------------------------------------------ world -------
enum TState { T_RUNNABLE = 0, T_BLOCKED, T_DONE, T_DEAD };

struct Task;
class World;

struct Result {
  Outcome outcome = RUN_OK;
  std::string abort_class;   // set by abort_run()
  std::string abort_detail;
  long steps = 0;            // decision points
  long multi = 0;            // decision points with >= 2 runnable tasks
  long switches = 0;
  int max_tasks = 0;
  int max_blocked = 0;
  uint64_t fingerprint = 0;
  uint64_t shape = 0;
  std::vector<int> decisions;      // chosen task at each multi-choice decision
  std::vector<std::pair<long,int>> deviations;  // where decisions differ from default policy
  std::vector<std::string> trace;  // if Config.trace
  std::string deadlock_graph;
};

// Run `main_fn` as task 0 of process 0 under the scheduler; returns when all
// tasks are done, on deadlock, when the step budget is exhausted, or when
// abort_run() is called.  Not re-entrant.
Result run(const Config &cfg, const std::function<void()> &main_fn, size_t main_stack = 8u << 20);

bool active();                 // inside run()?
int self();                    // current task id (-1 outside)
int self_proc();               // current simulated process (0 outside)
long now_step();               // simulated time in ticks (one tick per decision point, plus jumps when every task sleeps)
long long now_ns();            // simulated time in nanoseconds
void sleep_ns(long long ns);   // the current task sleeps in simulated time
long long tick_ns();           // length of one tick of simulated time in this run (Config::tick_ns, default 50 ms)

void point(int kind, long obj = 0);            // decision point (may switch task)
void event(int kind, long obj = 0, long a = 0);  // observable event (fingerprint + trace), no switch
void note(const std::string &s);
size_t tls_block_size();  // bytes of the executable's static TLS block that every task gets its own copy of               // trace only (no effect on fingerprint)
[[noreturn]] void abort_run(const std::string &cls, const std::string &detail);

// phases for the abstract-state reach measure
void set_phase(int phase);     // phase of the current task
void set_phase_of(int task, int phase);
uint64_t abstract_state();     // hash of all task phases (+ extra)
void set_state_extra(uint64_t x);

// tasks & processes
int spawn_task(const std::function<void()> &fn, int proc, const char *role, size_t stack = 1u << 20);
int new_process();                           // returns a fresh process id (pid = 1000 + id*7)
void kill_process(int proc);                 // all its tasks die now; never returns if self is in proc
bool proc_alive(int proc);
int task_proc(int task);
int n_tasks();
TState task_state(int task);
void set_on_proc_death(const std::function<void(int)> &f);   // called once per process death/exit
void set_on_idle(const std::function<bool()> &f);            // no runnable task: return true if something was woken
void set_on_decision(const std::function<void()> &f);        // called at every decision point before choosing
void set_on_point(const std::function<void(int, long)> &f);   // called in the task at every decision point, before the choice (may kill)
void set_on_proc_switch(const std::function<void(int, int)> &f);  // called when the CPU passes from a task of one simulated process to a task of another (from, to)
void set_on_uncaught(const std::function<void(int, const std::string &)> &f);  // exception left a task function

// generic blocking
void block_on(int kind, long obj);           // current task blocks until wake(kind,obj)
void wake(int kind, long obj);               // all waiters on (kind,obj) become runnable
int wake_one(int kind, long obj);            // one waiter on (kind,obj), picked by the scheduler (a recorded choice), becomes runnable; returns its id or -1
int choose(int n);                           // a recorded scheduler choice in [0,n): replayable like a task choice
void join_task(int task);                    // block until task is done/dead
[[noreturn]] void exit_task();

// Allocation points: the harness executable replaces operator new; while a run is active every `stride`-th
// allocation of a task for which `gate` returns true becomes a decision point (stride 0 = off).  This puts
// pre-emption points inside code that makes no intercepted call (e.g. a tool's EvalConfiguration).
void set_alloc_points(long stride, long offset, const std::function<bool()> &gate);
void alloc_point();   // called by the replaced operator new
// RAII: code between construction and destruction is harness code of the current task; its allocations are never decision points
struct Harness { Harness(); ~Harness(); int task; };
long alloc_points_taken();

// fatal harness error: message, exit code 2
[[noreturn]] void harness_error(const char *fmt, ...);

void rearm_watchdog();   // interval timers are not inherited by fork(): call in a forked child that runs simulations

// installed by engines' main(): turn crashes of the code under test into result lines
void install_crash_reporter(void (*on_crash)(const char *what));

}  // namespace sim
