// -Wl,--wrap seam for the pthread calls made by statically linked votca
// objects (tools::Thread, tools::Mutex).  Inside a simulated run every thread is
// a task and every mutex is one bit plus waiters; outside a run the calls go to
// the real library.
#include "core/sim.h"
#include "core/wrap_pthread.h"

#include <pthread.h>
#include <unordered_map>
#include <vector>

extern "C" {
int __real_pthread_create(pthread_t *, const pthread_attr_t *, void *(*)(void *), void *);
int __real_pthread_join(pthread_t, void **);
void __real_pthread_exit(void *) __attribute__((noreturn));
int __real_pthread_mutex_init(pthread_mutex_t *, const pthread_mutexattr_t *);
int __real_pthread_mutex_destroy(pthread_mutex_t *);
int __real_pthread_mutex_lock(pthread_mutex_t *);
int __real_pthread_mutex_unlock(pthread_mutex_t *);
int __real_pthread_mutex_trylock(pthread_mutex_t *);
pthread_t __real_pthread_self(void);
}

namespace sim {

struct MutexState { long index; bool locked; int owner; };
static std::unordered_map<void *, MutexState> g_mutexes;  // never iterated
static long g_next_mutex = 0;
static std::vector<int> g_held;  // per task
static void held_add(int task, int d) {
  if (task < 0) return;
  if ((size_t)task >= g_held.size()) g_held.resize((size_t)task + 16, 0);
  g_held[(size_t)task] += d;
}
int mutexes_held(int task) { return task >= 0 && (size_t)task < g_held.size() ? g_held[(size_t)task] : 0; }
static MutexObs g_obsv;
static MutexObs *g_obs = &g_obsv;
MutexObs &mutex_obs() { return g_obsv; }
static MutexObserver g_mobs;

void pthread_layer_reset() {
  g_mutexes.clear();
  g_held.assign(64, 0);
  g_next_mutex = 0;
  g_obsv = MutexObs();
  g_mobs = nullptr;
}
void set_mutex_observer(const MutexObserver &f) { g_mobs = f; }
long mutex_count() { return g_next_mutex; }

static MutexState &mstate(pthread_mutex_t *m) {
  auto it = g_mutexes.find(m);
  if (it == g_mutexes.end()) it = g_mutexes.emplace(m, MutexState{g_next_mutex++, false, -1}).first;
  return it->second;
}

}  // namespace sim

using namespace sim;

extern "C" {

int __wrap_pthread_create(pthread_t *th, const pthread_attr_t *attr, void *(*fn)(void *), void *arg) {
  if (!active()) return __real_pthread_create(th, attr, fn, arg);
  sim::Harness harness_scope;
  int id = spawn_task([fn, arg] { fn(arg); }, self_proc(), "thread");
  *th = (pthread_t)(id + 1);
  event(K_CREATE, id, 0);
  point(K_CREATE, id);
  return 0;
}

// all tasks share one OS thread: code that asks who it is must see its task, not the OS thread
pthread_t __wrap_pthread_self(void) {
  if (!active()) return __real_pthread_self();
  return (pthread_t)(self() + 1);
}

int __wrap_pthread_join(pthread_t th, void **ret) {
  if (!active()) return __real_pthread_join(th, ret);
  sim::Harness harness_scope;
  int id = (int)th - 1;
  if (id < 0 || id >= n_tasks()) return 3;  // ESRCH
  join_task(id);
  if (ret) *ret = nullptr;
  return 0;
}

void __wrap_pthread_exit(void *r) {
  if (!active()) __real_pthread_exit(r);
  exit_task();
}

int __wrap_pthread_mutex_init(pthread_mutex_t *m, const pthread_mutexattr_t *a) {
  if (!active()) return __real_pthread_mutex_init(m, a);
  sim::Harness harness_scope;
  g_mutexes.erase(m);
  MutexState &s = mstate(m);
  event(K_MINIT, s.index, 0);
  return 0;
}

int __wrap_pthread_mutex_destroy(pthread_mutex_t *m) {
  if (!active()) return __real_pthread_mutex_destroy(m);
  sim::Harness harness_scope;
  auto it = g_mutexes.find(m);
  if (it != g_mutexes.end()) {
    if (it->second.locked && g_obs) g_obs->destroy_while_locked++;
    event(K_MDESTROY, it->second.index, it->second.locked);
    g_mutexes.erase(it);
  }
  return 0;
}

int __wrap_pthread_mutex_lock(pthread_mutex_t *m) {
  if (!active()) return __real_pthread_mutex_lock(m);
  sim::Harness harness_scope;
  long idx = mstate(m).index;
  if (g_mobs) g_mobs(0, idx, self());
  point(K_MLOCK, idx);
  for (;;) {
    MutexState &s = mstate(m);  // re-lookup: the map may have been rehashed meanwhile
    if (!s.locked) {
      s.locked = true;
      s.owner = self();
      held_add(s.owner, 1);
      break;
    }
    if (s.owner == self() && g_obs) g_obs->relock_by_owner++;  // blocks for good unless another task unlocks (the token ring relies on this)
    block_on(K_MLOCK, idx);
  }
  event(K_MLOCKED, idx, 0);
  if (g_mobs) g_mobs(1, idx, self());
  return 0;
}

int __wrap_pthread_mutex_trylock(pthread_mutex_t *m) {
  if (!active()) return __real_pthread_mutex_trylock(m);
  sim::Harness harness_scope;
  long idx = mstate(m).index;
  point(K_MLOCK, idx);
  MutexState &s = mstate(m);
  if (s.locked) return 16;  // EBUSY
  s.locked = true;
  s.owner = self();
  held_add(s.owner, 1);
  event(K_MLOCKED, idx, 1);
  if (g_mobs) g_mobs(1, idx, self());
  return 0;
}

int __wrap_pthread_mutex_unlock(pthread_mutex_t *m) {
  if (!active()) return __real_pthread_mutex_unlock(m);
  sim::Harness harness_scope;
  MutexState &s = mstate(m);
  long idx = s.index;
  if (g_obs) {
    if (!s.locked) g_obs->unlock_of_unlocked++;
    else if (s.owner != self()) g_obs->unlock_by_non_owner++;
  }
  if (g_mobs) g_mobs(2, idx, self());
  if (s.locked) held_add(s.owner, -1);
  s.locked = false;
  s.owner = -1;
  event(K_MUNLOCK, idx, 0);
  wake(K_MLOCK, idx);
  point(K_MUNLOCK, idx);
  return 0;
}
}
