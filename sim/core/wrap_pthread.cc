// Seam for all pthread calls of the process: the harness executable DEFINES the pthread entry points, so
// that calls from statically linked votca objects (tools::Thread, tools::Mutex, or std::mutex / std::thread /
// std::condition_variable if the code is ever modernised) and calls made by libstdc++.so on their behalf bind
// here.  Inside a simulated run every thread is a task, every mutex one bit plus waiters, every condition
// variable a waiter set; outside a run the calls go to glibc.
#include "core/sim.h"
#include "core/wrap_pthread.h"

#include <cerrno>
#include <dlfcn.h>
#include <ctime>
#include <pthread.h>
#include <unordered_map>
#include <vector>

namespace {
template <class F> F real_sym(const char *name, const char *version = nullptr) {
  void *p = version ? dlvsym(RTLD_NEXT, name, version) : nullptr;
  if (!p) p = dlsym(RTLD_NEXT, name);
  if (!p) sim::harness_error("cannot resolve the real %s", name);
  return (F)p;
}
#define REAL(ret, name, version, ...)                        \
  typedef ret (*name##_fn)(__VA_ARGS__);                     \
  static name##_fn real_##name() {                           \
    static name##_fn f = real_sym<name##_fn>(#name, version); \
    return f;                                                \
  }
REAL(int, pthread_mutex_init, nullptr, pthread_mutex_t *, const pthread_mutexattr_t *)
REAL(int, pthread_mutex_destroy, nullptr, pthread_mutex_t *)
REAL(int, pthread_mutex_lock, nullptr, pthread_mutex_t *)
REAL(int, pthread_mutex_unlock, nullptr, pthread_mutex_t *)
REAL(int, pthread_mutex_trylock, nullptr, pthread_mutex_t *)
REAL(int, pthread_once, nullptr, pthread_once_t *, void (*)(void))
REAL(int, pthread_create, nullptr, pthread_t *, const pthread_attr_t *, void *(*)(void *), void *)
REAL(int, pthread_join, nullptr, pthread_t, void **)
REAL(int, pthread_detach, nullptr, pthread_t)
REAL(void, pthread_exit, nullptr, void *)
REAL(pthread_t, pthread_self, nullptr, void)
REAL(int, pthread_cond_init, "GLIBC_2.3.2", pthread_cond_t *, const pthread_condattr_t *)
REAL(int, pthread_cond_destroy, "GLIBC_2.3.2", pthread_cond_t *)
REAL(int, pthread_cond_wait, "GLIBC_2.3.2", pthread_cond_t *, pthread_mutex_t *)
REAL(int, pthread_cond_timedwait, "GLIBC_2.3.2", pthread_cond_t *, pthread_mutex_t *, const struct timespec *)
REAL(int, pthread_cond_signal, "GLIBC_2.3.2", pthread_cond_t *)
REAL(int, pthread_cond_broadcast, "GLIBC_2.3.2", pthread_cond_t *)
}  // namespace

namespace sim {

struct MutexState { long index; bool locked; int owner; };
static std::unordered_map<void *, MutexState> g_mutexes;  // never iterated
static long g_next_mutex = 0;
struct OnceState { int state; int runner; };  // 0 not run, 1 running, 2 done
static std::unordered_map<void *, OnceState> g_onces;
static std::unordered_map<void *, long> g_conds;  // address -> index
static long g_next_cond = 0;
static std::vector<int> g_held;  // per task
static void held_add(int task, int d) {
  if (task < 0) return;
  if ((size_t)task >= g_held.size()) g_held.resize((size_t)task + 16, 0);
  g_held[(size_t)task] += d;
}
int mutexes_held(int task) { return task >= 0 && (size_t)task < g_held.size() ? g_held[(size_t)task] : 0; }
static MutexObs g_obsv;
static MutexObs *g_obs = &g_obsv;
MutexObs &mutex_obs() { return g_obsv; }
static MutexObserver g_mobs;

void pthread_layer_reset() {
  g_mutexes.clear();
  g_onces.clear();
  g_conds.clear();
  g_next_cond = 0;
  g_held.assign(64, 0);
  g_next_mutex = 0;
  g_obsv = MutexObs();
  g_mobs = nullptr;
}
void set_mutex_observer(const MutexObserver &f) { g_mobs = f; }
long mutex_count() { return g_next_mutex; }

static MutexState &mstate(pthread_mutex_t *m) {
  auto it = g_mutexes.find(m);
  if (it == g_mutexes.end()) it = g_mutexes.emplace(m, MutexState{g_next_mutex++, false, -1}).first;
  return it->second;
}

}  // namespace sim

using namespace sim;

extern "C" {

int pthread_create(pthread_t *th, const pthread_attr_t *attr, void *(*fn)(void *), void *arg) {
  if (!active()) return real_pthread_create()(th, attr, fn, arg);
  sim::Harness harness_scope;
  int id = spawn_task([fn, arg] { fn(arg); }, self_proc(), "thread");
  *th = (pthread_t)(id + 1);
  event(K_CREATE, id, 0);
  point(K_CREATE, id);
  return 0;
}

// all tasks share one OS thread: code that asks who it is must see its task, not the OS thread
pthread_t pthread_self(void) {
  if (!active()) return real_pthread_self()();
  return (pthread_t)(self() + 1);
}

int pthread_join(pthread_t th, void **ret) {
  if (!active()) return real_pthread_join()(th, ret);
  sim::Harness harness_scope;
  int id = (int)th - 1;
  if (id < 0 || id >= n_tasks()) return 3;  // ESRCH
  join_task(id);
  if (ret) *ret = nullptr;
  return 0;
}

void pthread_exit(void *r) {
  if (!active()) { real_pthread_exit()(r); __builtin_unreachable(); }
  exit_task();
}

int pthread_mutex_init(pthread_mutex_t *m, const pthread_mutexattr_t *a) {
  if (!active()) return real_pthread_mutex_init()(m, a);
  sim::Harness harness_scope;
  real_pthread_mutex_init()(m, a);  // keep the object valid for any use outside the simulation
  g_mutexes.erase(m);
  MutexState &s = mstate(m);
  event(K_MINIT, s.index, 0);
  return 0;
}

int pthread_mutex_destroy(pthread_mutex_t *m) {
  if (!active()) return real_pthread_mutex_destroy()(m);
  sim::Harness harness_scope;
  auto it = g_mutexes.find(m);
  if (it != g_mutexes.end()) {
    if (it->second.locked && g_obs) g_obs->destroy_while_locked++;
    event(K_MDESTROY, it->second.index, it->second.locked);
    g_mutexes.erase(it);
  }
  return 0;
}

int pthread_mutex_lock(pthread_mutex_t *m) {
  if (!active()) return real_pthread_mutex_lock()(m);
  sim::Harness harness_scope;
  long idx = mstate(m).index;
  if (g_mobs) g_mobs(0, idx, self());
  point(K_MLOCK, idx);
  for (;;) {
    MutexState &s = mstate(m);  // re-lookup: the map may have been rehashed meanwhile
    if (!s.locked) {
      s.locked = true;
      s.owner = self();
      held_add(s.owner, 1);
      break;
    }
    if (s.owner == self() && g_obs) g_obs->relock_by_owner++;  // blocks for good unless another task unlocks (the token ring relies on this)
    block_on(K_MLOCK, idx);
  }
  event(K_MLOCKED, idx, 0);
  if (g_mobs) g_mobs(1, idx, self());
  return 0;
}

// timed lock: waits in simulated time; the deadline is compared with the simulated clock of wrap_time.cc
static int sim_timedlock(pthread_mutex_t *m, clockid_t clk, const struct timespec *abstime) {
  sim::Harness harness_scope;
  long idx = mstate(m).index;
  if (g_mobs) g_mobs(0, idx, self());
  point(K_MLOCK, idx);
  for (;;) {
    MutexState &s = mstate(m);
    if (!s.locked) {
      s.locked = true;
      s.owner = self();
      held_add(s.owner, 1);
      event(K_MLOCKED, idx, 2);
      if (g_mobs) g_mobs(1, idx, self());
      return 0;
    }
    struct timespec now;
    clock_gettime(clk, &now);  // the harness's own definition: simulated time
    if (abstime && (now.tv_sec > abstime->tv_sec || (now.tv_sec == abstime->tv_sec && now.tv_nsec >= abstime->tv_nsec))) return ETIMEDOUT;
    sleep_ns(tick_ns());       // not runnable until the clock has advanced; PCT lowers its priority (fairness)
  }
}

int pthread_mutex_timedlock(pthread_mutex_t *m, const struct timespec *abstime) {
  typedef int (*fn)(pthread_mutex_t *, const struct timespec *);
  static fn real = real_sym<fn>("pthread_mutex_timedlock");
  if (!active()) return real(m, abstime);
  return sim_timedlock(m, CLOCK_REALTIME, abstime);
}

int pthread_mutex_clocklock(pthread_mutex_t *m, clockid_t clk, const struct timespec *abstime) {
  typedef int (*fn)(pthread_mutex_t *, clockid_t, const struct timespec *);
  static fn real = real_sym<fn>("pthread_mutex_clocklock");
  if (!active()) return real(m, clk, abstime);
  return sim_timedlock(m, clk, abstime);
}

int pthread_mutex_trylock(pthread_mutex_t *m) {
  if (!active()) return real_pthread_mutex_trylock()(m);
  sim::Harness harness_scope;
  long idx = mstate(m).index;
  point(K_MLOCK, idx);
  MutexState &s = mstate(m);
  if (s.locked) return 16;  // EBUSY
  s.locked = true;
  s.owner = self();
  held_add(s.owner, 1);
  event(K_MLOCKED, idx, 1);
  if (g_mobs) g_mobs(1, idx, self());
  return 0;
}

// the effect of an unlock without the decision point that follows it
static long sim_mutex_release(pthread_mutex_t *m) {
  MutexState &s = mstate(m);
  long idx = s.index;
  if (g_obs) {
    if (!s.locked) g_obs->unlock_of_unlocked++;
    else if (s.owner != self()) g_obs->unlock_by_non_owner++;
  }
  if (g_mobs) g_mobs(2, idx, self());
  if (s.locked) held_add(s.owner, -1);
  s.locked = false;
  s.owner = -1;
  event(K_MUNLOCK, idx, 0);
  wake(K_MLOCK, idx);
  return idx;
}

int pthread_mutex_unlock(pthread_mutex_t *m) {
  if (!active()) return real_pthread_mutex_unlock()(m);
  sim::Harness harness_scope;
  long idx2 = sim_mutex_release(m);
  point(K_MUNLOCK, idx2);
  return 0;
}

int pthread_detach(pthread_t th) {
  if (!active()) return real_pthread_detach()(th);
  return 0;  // a detached task simply is never joined
}

// std::call_once and function-local statics of libstdc++ use pthread_once: the initialiser may be pre-empted
// (allocation point), a second caller must then wait in the simulator, not in a futex
int pthread_once(pthread_once_t *once, void (*fn)(void)) {
  if (!active()) return real_pthread_once()(once, fn);
  sim::Harness harness_scope;
  for (;;) {
    auto it = g_onces.find(once);
    if (it == g_onces.end()) {
      if (*once != PTHREAD_ONCE_INIT) return 0;  // completed outside the simulation
      it = g_onces.emplace(once, OnceState{0, -1}).first;
    }
    if (it->second.state == 2) return 0;
    if (it->second.state == 0) {
      it->second.state = 1;
      it->second.runner = self();
      fn();  // may contain decision points; allocation points stay off inside an initialiser
      g_onces[once].state = 2;
      *once = 2;  // glibc's "done" value, so that a later real pthread_once returns at once
      wake(K_GATE, (long)(0x40000000 + ((long)(size_t)once & 0xffffff)));
      return 0;
    }
    block_on(K_GATE, (long)(0x40000000 + ((long)(size_t)once & 0xffffff)));
  }
}

static long cond_index(pthread_cond_t *c) {
  auto it = g_conds.find(c);
  if (it == g_conds.end()) it = g_conds.emplace(c, g_next_cond++).first;
  return it->second;
}

int pthread_cond_init(pthread_cond_t *c, const pthread_condattr_t *a) {
  if (!active()) return real_pthread_cond_init()(c, a);
  sim::Harness harness_scope;
  g_conds.erase(c);
  cond_index(c);
  return 0;
}

int pthread_cond_destroy(pthread_cond_t *c) {
  if (!active()) return real_pthread_cond_destroy()(c);
  sim::Harness harness_scope;
  g_conds.erase(c);
  return 0;
}

static int sim_cond_wait(pthread_cond_t *c, pthread_mutex_t *m, bool timed) {
  sim::Harness harness_scope;
  long ci = cond_index(c);
  // release the mutex and start waiting ATOMICALLY (no decision point in between, otherwise a signal sent after the
  // release and before the wait would be lost); a timed wait may also return by "timeout" (spurious wake-ups are legal)
  sim_mutex_release(m);
  if (!timed) block_on(K_GATE, 0x20000000 + ci);
  else point(K_GATE, 0x20000000 + ci);
  pthread_mutex_lock(m);
  return timed ? ETIMEDOUT : 0;
}

int pthread_cond_wait(pthread_cond_t *c, pthread_mutex_t *m) {
  if (!active()) return real_pthread_cond_wait()(c, m);
  return sim_cond_wait(c, m, false);
}

int pthread_cond_timedwait(pthread_cond_t *c, pthread_mutex_t *m, const struct timespec *ts) {
  if (!active()) return real_pthread_cond_timedwait()(c, m, ts);
  return sim_cond_wait(c, m, true);
}

int pthread_cond_signal(pthread_cond_t *c) {
  if (!active()) return real_pthread_cond_signal()(c);
  sim::Harness harness_scope;
  long ci = cond_index(c);
  // exactly one waiter, picked by the scheduler (a recorded choice): code that needs notify_all but calls notify_one
  // must be able to fail; spurious wake-ups are not generated
  wake_one(K_GATE, 0x20000000 + ci);
  point(K_GATE, 0x20000000 + ci);
  return 0;
}

int pthread_cond_broadcast(pthread_cond_t *c) {
  if (!active()) return real_pthread_cond_broadcast()(c);
  sim::Harness harness_scope;
  long ci = cond_index(c);
  wake(K_GATE, 0x20000000 + ci);
  point(K_GATE, 0x20000000 + ci);
  return 0;
}
}
