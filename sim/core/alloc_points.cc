// Replacement of the global allocation functions in the harness executable: every C++ allocation of the
// code under test (statically linked votca objects and, through the PLT, libstdc++) passes here, and a
// sampled subset becomes a decision point of the simulator (sim::alloc_point, see sim.h).
#include "core/sim.h"

#include <cstdlib>
#include <new>

static inline void *alloc(std::size_t n) {
  void *p = std::malloc(n ? n : 1);
  if (!p) throw std::bad_alloc();
  sim::alloc_point();
  return p;
}
static inline void *alloc_aligned(std::size_t n, std::size_t al) {
  void *p = nullptr;
  if (al < sizeof(void *)) al = sizeof(void *);
  if (posix_memalign(&p, al, n ? n : 1) != 0) throw std::bad_alloc();
  sim::alloc_point();
  return p;
}

void *operator new(std::size_t n) { return alloc(n); }
void *operator new[](std::size_t n) { return alloc(n); }
void *operator new(std::size_t n, const std::nothrow_t &) noexcept { return std::malloc(n ? n : 1); }
void *operator new[](std::size_t n, const std::nothrow_t &) noexcept { return std::malloc(n ? n : 1); }
void *operator new(std::size_t n, std::align_val_t al) { return alloc_aligned(n, (std::size_t)al); }
void *operator new[](std::size_t n, std::align_val_t al) { return alloc_aligned(n, (std::size_t)al); }
void operator delete(void *p) noexcept { std::free(p); }
void operator delete[](void *p) noexcept { std::free(p); }
void operator delete(void *p, std::size_t) noexcept { std::free(p); }
void operator delete[](void *p, std::size_t) noexcept { std::free(p); }
void operator delete(void *p, std::align_val_t) noexcept { std::free(p); }
void operator delete[](void *p, std::align_val_t) noexcept { std::free(p); }
void operator delete(void *p, std::size_t, std::align_val_t) noexcept { std::free(p); }
void operator delete[](void *p, std::size_t, std::align_val_t) noexcept { std::free(p); }
void operator delete(void *p, const std::nothrow_t &) noexcept { std::free(p); }
void operator delete[](void *p, const std::nothrow_t &) noexcept { std::free(p); }
