#pragma once
#include <functional>
namespace sim {
// observations about mutex usage (never verdicts): POSIX-undefined but glibc-tolerated operations
struct MutexObs { long unlock_by_non_owner = 0, unlock_of_unlocked = 0, destroy_while_locked = 0, relock_by_owner = 0; };
MutexObs &mutex_obs();
// call before each run: forget all mutexes, zero the observations
void pthread_layer_reset();
// op: 0 lock requested, 1 lock acquired, 2 unlock; index = first-seen order of the mutex
using MutexObserver = std::function<void(int op, long index, int task)>;
void set_mutex_observer(const MutexObserver &f);
long mutex_count();
int mutexes_held(int task);   // number of simulated mutexes currently owned by the task
}  // namespace sim
