// Simulator core, see sim.h and DESIGN.md section 2.
#include "core/sim.h"

#include <cerrno>
#include <csignal>
#include <cstdarg>
#include <cstdlib>
#include <cstring>
#include <cxxabi.h>
#include <dlfcn.h>
#include <exception>
#include <link.h>
#include <map>
#include <sys/mman.h>
#include <sys/time.h>
#include <ucontext.h>
#include <sys/syscall.h>
#include <unistd.h>

#if defined(SIM_SAN)
#include <sanitizer/asan_interface.h>
#include <sanitizer/common_interface_defs.h>
#endif

// per-thread exception bookkeeping of the C++ runtime; shared by all coroutines
// of the OS thread, so it is saved and restored on every task switch.
namespace __cxxabiv1 {
struct __cxa_eh_globals;
extern "C" __cxa_eh_globals *__cxa_get_globals() noexcept;
}  // namespace __cxxabiv1

namespace sim {

struct EhGlobals { void *caught; unsigned int uncaught; };

struct Task {
  int id = -1;
  int proc = 0;
  TState state = T_RUNNABLE;
  ucontext_t ctx;
  char *stack = nullptr;
  size_t stack_size = 0;
  std::function<void()> fn;
  const char *role = "";
  int wait_kind = 0;
  long wait_obj = 0;
  int phase = 0;
  uint64_t prio = 0;
  int saved_errno = 0;
  EhGlobals eh{nullptr, 0};
  void *fake_stack = nullptr;
  bool started = false;
  int in_harness = 0;
  long wake_tick = 0;
  char *tls = nullptr;                                   // this task's copy of the executable's static TLS block
  std::vector<std::pair<void (*)(void *), void *>> tls_dtors;  // destructors of its thread_local objects
};

struct Proc { bool alive = true; bool ended = false; };

class World {
 public:
  Config cfg;
  Result res;
  std::vector<Task *> tasks;
  std::vector<Proc> procs;
  Task *current = nullptr;
  Task mainctx;  // the scheduler's own context (the caller of run())
  Rng rng;
  std::vector<long> pct_points;
  uint64_t pct_low = 1u << 20;
  size_t replay_pos = 0;
  size_t dev_pos = 0;
  uint64_t state_extra = 0;
  std::function<void(int)> on_proc_death;
  std::function<bool()> on_idle;
  std::function<void()> on_decision;
  std::function<void(int, long)> on_point;
  std::function<void(int, int)> on_proc_switch;
  std::function<void(int, const std::string &)> on_uncaught;
  bool finished = false;
  long ticks = 0;          // simulated time
  bool in_sched = false;   // inside the scheduler's own bookkeeping: its allocations are not decision points
  long alloc_stride = 0, alloc_offset = 0, alloc_count = 0, alloc_taken = 0;
  std::function<bool()> alloc_gate;
};

static World *W = nullptr;
static void arm_watchdog();
static void (*g_on_crash)(const char *) = nullptr;

// ---- stack pool -----------------------------------------------------------
static std::multimap<size_t, char *> g_stack_pool;
static char *stack_get(size_t sz) {
  auto it = g_stack_pool.find(sz);
  if (it != g_stack_pool.end()) {
    char *p = it->second;
    g_stack_pool.erase(it);
#if defined(SIM_SAN)
    ASAN_UNPOISON_MEMORY_REGION(p, sz);
#endif
    return p;
  }
  size_t guard = 4096;
  char *m = (char *)mmap(nullptr, sz + guard, PROT_READ | PROT_WRITE, MAP_PRIVATE | MAP_ANONYMOUS | MAP_NORESERVE, -1, 0);
  if (m == MAP_FAILED) harness_error("mmap of a task stack failed: %s", strerror(errno));
  mprotect(m, guard, PROT_NONE);
  return m + guard;
}
static void stack_put(char *p, size_t sz) {
  if (g_stack_pool.size() > 64) {
    munmap(p - 4096, sz + 4096);
    return;
  }
  g_stack_pool.emplace(sz, p);
}

const char *kind_name(int k) {
  switch (k) {
    case K_NONE: return "none";
    case K_CREATE: return "create";
    case K_START: return "start";
    case K_JOIN: return "join";
    case K_JOINED: return "joined";
    case K_EXIT: return "exit";
    case K_MLOCK: return "mlock";
    case K_MLOCKED: return "mlocked";
    case K_MUNLOCK: return "munlock";
    case K_MINIT: return "minit";
    case K_MDESTROY: return "mdestroy";
    case K_GATE: return "gate";
    case K_GETPID: return "getpid";
    case K_TIME: return "time";
    case K_OPEN: return "open";
    case K_CLOSE: return "close";
    case K_FLOCK: return "flock";
    case K_FLOCKED: return "flocked";
    case K_FUNLOCK: return "funlock";
    case K_FOPEN: return "fopen";
    case K_FCLOSE: return "fclose";
    case K_WRITE: return "write";
    case K_READ: return "read";
    case K_ALLOC: return "alloc";
    case K_SLEEP: return "sleep";
    default: break;
  }
  static thread_local char buf[16];
  snprintf(buf, sizeof buf, "u%d", k - K_USER);
  return buf;
}

std::string Strategy::name() const {
  char b[32];
  switch (type) {
    case RW: return "rw";
    case STICKY: snprintf(b, sizeof b, "sticky%.2f", p); return b;
    case PCT: snprintf(b, sizeof b, "pct%d", d); return b;
    case REPLAY: return "replay";
    case DEFAULT: return "default";
  }
  return "?";
}

void harness_error(const char *fmt, ...) {
  va_list ap;
  va_start(ap, fmt);
  fprintf(stderr, "HARNESS-ERROR ");
  vfprintf(stderr, fmt, ap);
  fprintf(stderr, "\n");
  va_end(ap);
  fflush(stderr);
  fflush(stdout);
  syscall(SYS_exit_group, 2);  // not _exit(): an engine may interpose it for the code under test
  __builtin_unreachable();
}

bool active() { return W != nullptr && !W->finished && W->current != &W->mainctx; }
int self() { return active() ? W->current->id : -1; }
int self_proc() { return active() ? W->current->proc : 0; }
long now_step() { return W ? W->ticks : 0; }
long long tick_ns() { return W ? W->cfg.tick_ns : 50000000LL; }
long long now_ns() { return (W ? (long long)W->ticks : 0LL) * tick_ns(); }
void sleep_ns(long long ns) {
  if (!active()) return;
  long k = 1 + (long)(ns / tick_ns());
  if (k > 100000) k = 100000;
  Task *t = W->current;
  t->state = T_BLOCKED;
  t->wait_kind = K_SLEEP;
  t->wait_obj = k;
  t->wake_tick = W->ticks + k;
  // fairness: a task that sleeps or yields signals that it cannot make progress by itself; under the strict
  // priorities of PCT it would otherwise starve the task it is waiting for (retry loops with back-off)
  if (W->cfg.strat.type == Strategy::PCT && !W->cfg.use_deviations) t->prio = --W->pct_low;
  point(K_SLEEP, k);
}

static inline void record(int kind, long obj, long a) {
  Result &r = W->res;
  int t = W->current ? W->current->id : -1;
  r.fingerprint = hmix(hmix(hmix(hmix(r.fingerprint, (uint64_t)t), (uint64_t)kind), (uint64_t)obj), (uint64_t)a);
  if (W->cfg.trace) {
    char b[160];
    snprintf(b, sizeof b, "%ld t%d %s obj=%ld a=%ld", r.steps, t, kind_name(kind), obj, a);
    r.trace.emplace_back(b);
  }
}

void event(int kind, long obj, long a) {
  if (!active()) return;
  record(kind, obj, a);
}

void note(const std::string &s) {
  if (!active() || !W->cfg.trace) return;
  W->res.trace.emplace_back("  # " + s);
}

// ---- thread_local storage of the code under test ------------------------------
// All tasks run on one OS thread, so they would share one block of thread-local storage.  The votca objects are
// linked statically into the harness executable, hence their thread_local variables live in the executable's static
// TLS block: every task gets its own copy of that block (initialised from the TLS image, as for a new thread),
// swapped in and out at every context switch.  TLS of shared libraries (libc: errno, libstdc++: exception globals)
// is not in that block and is handled separately (saved_errno, eh).
static char *g_tls_base = nullptr;
static const char *g_tls_image = nullptr;
static size_t g_tls_size = 0, g_tls_filesz = 0;
static int tls_cb(dl_phdr_info *info, size_t, void *) {
  for (int i = 0; i < info->dlpi_phnum; i++)
    if (info->dlpi_phdr[i].p_type == PT_TLS) {
      g_tls_base = (char *)info->dlpi_tls_data;
      g_tls_size = (size_t)info->dlpi_phdr[i].p_memsz;
      g_tls_filesz = (size_t)info->dlpi_phdr[i].p_filesz;
      g_tls_image = (const char *)(info->dlpi_addr + info->dlpi_phdr[i].p_vaddr);
    }
  return 1;  // the first object is the main program; stop there
}
static void tls_locate() {
  static bool done = false;
  if (done) return;
  done = true;
  dl_iterate_phdr(tls_cb, nullptr);
  if (!g_tls_base || getenv("VERIF_SHARED_TLS")) g_tls_size = 0;  // VERIF_SHARED_TLS=1: self-test of this very mechanism (tasks share one block again)
}
static char *tls_fresh() {
  if (!g_tls_size) return nullptr;
  char *b = (char *)malloc(g_tls_size);
  if (!b) harness_error("out of memory");
  memcpy(b, g_tls_image, g_tls_filesz);
  memset(b + g_tls_filesz, 0, g_tls_size - g_tls_filesz);
  return b;
}
size_t tls_block_size() { tls_locate(); return g_tls_size; }

// ---- context switching -----------------------------------------------------
static void switch_to(Task *next) {
  Task *prev = W->current;
  if (prev == next) return;
  prev->saved_errno = errno;
  EhGlobals *g = (EhGlobals *)__cxxabiv1::__cxa_get_globals();
  prev->eh = *g;
  W->current = next;
  W->res.switches++;
  if (g_tls_size) { memcpy(prev->tls, g_tls_base, g_tls_size); memcpy(g_tls_base, next->tls, g_tls_size); }
  if (W->on_proc_switch && prev->proc != next->proc && next != &W->mainctx && prev != &W->mainctx) W->on_proc_switch(prev->proc, next->proc);
#if defined(SIM_SAN)
  bool dying = (prev->state == T_DONE || prev->state == T_DEAD) && prev != &W->mainctx;
  __sanitizer_start_switch_fiber(dying ? nullptr : &prev->fake_stack, next->stack, next->stack_size);
#endif
  swapcontext(&prev->ctx, &next->ctx);
  // resumed as `prev`
#if defined(SIM_SAN)
  {
    const void *ob; size_t os;
    __sanitizer_finish_switch_fiber(prev->fake_stack, &ob, &os);
  }
#endif
  g = (EhGlobals *)__cxxabiv1::__cxa_get_globals();
  *g = prev->eh;
  errno = prev->saved_errno;
}

[[noreturn]] static void back_to_main() {
  W->in_sched = false;
  switch_to(&W->mainctx);
  harness_error("a finished task was resumed");
}

static std::string wait_graph() {
  std::string s;
  for (Task *t : W->tasks) {
    if (t->state != T_BLOCKED) continue;
    char b[128];
    snprintf(b, sizeof b, "t%d(%s,p%d) waits %s:%ld; ", t->id, t->role, t->proc, kind_name(t->wait_kind), t->wait_obj);
    s += b;
  }
  return s;
}

static int default_choice(const std::vector<int> &runnable) {
  int cur = W->current->id;
  if (W->current != &W->mainctx && W->current->state == T_RUNNABLE) return cur;
  return runnable[0];
}

// the only place where a scheduling choice is made
static void decide(int kind, long obj) {
  W->in_sched = true;
  for (;;) {
    std::vector<int> runnable;
    int blocked = 0;
    long next_wake = -1;
    for (Task *t : W->tasks) {
      if (t->state == T_BLOCKED && t->wait_kind == K_SLEEP) {
        if (t->wake_tick <= W->ticks) t->state = T_RUNNABLE;
        else if (next_wake < 0 || t->wake_tick < next_wake) next_wake = t->wake_tick;
      }
      if (t->state == T_RUNNABLE) runnable.push_back(t->id);
      else if (t->state == T_BLOCKED) blocked++;
    }
    if (blocked > W->res.max_blocked) W->res.max_blocked = blocked;
    if (runnable.empty() && next_wake >= 0) {  // everybody who could run sleeps: jump the clock to the next wake-up
      W->ticks = next_wake;
      continue;
    }
    if (runnable.empty()) {
      if (W->on_idle && W->on_idle()) continue;
      if (blocked > 0) {
        W->res.outcome = RUN_DEADLOCK;
        W->res.deadlock_graph = wait_graph();
      }
      back_to_main();
    }
    Result &r = W->res;
    r.steps++;
    W->ticks++;
    if (r.steps > W->cfg.budget) {
      r.outcome = RUN_BUDGET;
      back_to_main();
    }
    if (W->on_decision) W->on_decision();
    int chosen;
    if (runnable.size() == 1) {
      chosen = runnable[0];
    } else {
      long m = r.multi++;
      int dflt = default_choice(runnable);
      auto is_runnable = [&](int t) { for (int x : runnable) if (x == t) return true; return false; };
      if (W->cfg.use_deviations) {
        chosen = dflt;
        while (W->dev_pos < W->cfg.deviations.size() && W->cfg.deviations[W->dev_pos].first < m) W->dev_pos++;
        if (W->dev_pos < W->cfg.deviations.size() && W->cfg.deviations[W->dev_pos].first == m) {
          int want = W->cfg.deviations[W->dev_pos].second;
          if (is_runnable(want)) chosen = want;
        }
      } else switch (W->cfg.strat.type) {
        case Strategy::REPLAY: {
          if (W->replay_pos < W->cfg.replay.size() && is_runnable(W->cfg.replay[W->replay_pos])) {
            chosen = W->cfg.replay[W->replay_pos];
          } else if (W->cfg.replay_strict) {
            r.outcome = RUN_DIVERGED;
            back_to_main();
          } else {
            chosen = dflt;
          }
          W->replay_pos++;
          break;
        }
        case Strategy::DEFAULT: chosen = dflt; break;
        case Strategy::RW: chosen = runnable[W->rng.below(runnable.size())]; break;
        case Strategy::STICKY: {
          bool cur_ok = W->current->state == T_RUNNABLE && W->current != &W->mainctx;
          if (cur_ok && W->rng.chance(W->cfg.strat.p)) chosen = W->current->id;
          else chosen = runnable[W->rng.below(runnable.size())];
          break;
        }
        case Strategy::PCT: {
          for (long cp : W->pct_points)
            if (cp == r.steps && W->current != &W->mainctx) W->current->prio = --W->pct_low;
          chosen = runnable[0];
          for (int t : runnable)
            if (W->tasks[t]->prio > W->tasks[chosen]->prio) chosen = t;
          break;
        }
        default: chosen = dflt;
      }
      r.decisions.push_back(chosen);
      if (chosen != dflt) r.deviations.emplace_back(m, chosen);
    }
    int cur = W->current == &W->mainctx ? -1 : W->current->id;
    // fingerprint: who was at which kind of point, how many could run, who runs next
    r.fingerprint = hmix(hmix(hmix(hmix(r.fingerprint, (uint64_t)cur), (uint64_t)kind), (uint64_t)obj),
                         (uint64_t)chosen * 64 + runnable.size());
    r.shape = hmix(hmix(hmix(r.shape, (uint64_t)cur), (uint64_t)kind), (uint64_t)chosen * 131 + (uint64_t)(obj & 0xff));
    if (W->cfg.trace) {
      char b[200];
      int n = snprintf(b, sizeof b, "%ld t%d @%s:%ld run={", r.steps, cur, kind_name(kind), obj);
      for (int t : runnable) n += snprintf(b + n, sizeof b - n > 0 ? sizeof b - n : 0, "%d,", t);
      snprintf(b + (n < 190 ? n : 190), 10, "}->t%d", chosen);
      r.trace.emplace_back(b);
    }
    W->in_sched = false;
    switch_to(W->tasks[chosen]);
    return;
  }
}

void point(int kind, long obj) {
  if (!active()) return;
  if (W->on_point) { bool was = W->in_sched; W->in_sched = true; W->on_point(kind, obj); W->in_sched = was; }
  decide(kind, obj);
}

void abort_run(const std::string &cls, const std::string &detail) {
  if (!W) harness_error("abort_run outside a run: %s %s", cls.c_str(), detail.c_str());
  if (W->res.abort_class.empty()) {
    W->res.abort_class = cls;
    W->res.abort_detail = detail;
  }
  W->res.outcome = RUN_ABORTED;
  if (W->current == &W->mainctx) harness_error("abort_run from the scheduler context");
  back_to_main();
}

void set_alloc_points(long stride, long offset, const std::function<bool()> &gate) {
  if (!W) return;
  W->alloc_stride = stride;
  W->alloc_offset = stride > 0 ? offset % stride : 0;
  W->alloc_gate = gate;
}
long alloc_points_taken() { return W ? W->alloc_taken : 0; }
void alloc_point() {
  if (!W || W->alloc_stride <= 0 || W->finished || W->in_sched || W->current == &W->mainctx) return;
  if (W->current->in_harness > 0) return;
  W->in_sched = true;  // the gate and the bookkeeping may allocate
  bool ok = !W->alloc_gate || W->alloc_gate();
  bool take = ok && (W->alloc_count++ % W->alloc_stride) == W->alloc_offset;
  W->in_sched = false;
  if (!take) return;
  W->alloc_taken++;
  point(K_ALLOC, 0);
}

Harness::Harness() : task(-1) {
  if (W && !W->finished && W->current != &W->mainctx) { task = W->current->id; W->current->in_harness++; }
}
Harness::~Harness() {
  if (task >= 0 && W && task < (int)W->tasks.size() && W->tasks[task]->in_harness > 0) W->tasks[task]->in_harness--;
}

void set_phase(int phase) { if (active()) W->current->phase = phase; }
void set_phase_of(int task, int phase) { if (W && task >= 0 && task < (int)W->tasks.size()) W->tasks[task]->phase = phase; }
void set_state_extra(uint64_t x) { if (W) W->state_extra = x; }
uint64_t abstract_state() {
  uint64_t h = W->state_extra;
  for (Task *t : W->tasks) {
    int ph = t->state == T_DONE ? 1000 : t->state == T_DEAD ? 1001 : t->phase;
    h = hmix(h, (uint64_t)ph * 4 + (t->state == T_BLOCKED ? 1 : 0));
  }
  return h;
}

// ---- tasks -----------------------------------------------------------------
static void finish_task(Task *t, TState st);

static void trampoline() {
  Task *t = W->current;
#if defined(SIM_SAN)
  {
    const void *ob; size_t os;
    __sanitizer_finish_switch_fiber(nullptr, &ob, &os);
    if (!W->mainctx.stack) {  // the first task of a run is always entered from the scheduler context
      W->mainctx.stack = (char *)ob;
      W->mainctx.stack_size = os;
    }
  }
#endif
  EhGlobals *g = (EhGlobals *)__cxxabiv1::__cxa_get_globals();
  g->caught = nullptr;
  g->uncaught = 0;
  errno = 0;
  t->started = true;
  t->in_harness = 0;
  record(K_START, t->id, 0);
  std::string what;
  bool threw = false;
  try {
    t->fn();
  } catch (const std::exception &e) {
    threw = true;
    what = e.what();
  } catch (...) {
    threw = true;
    what = "unknown exception";
  }
  if (threw) {
    // an exception leaving a thread function is std::terminate: the whole
    // (simulated) process dies
    record(K_EXIT, t->id, 2);
    t->in_harness++;
    if (W->on_uncaught) W->on_uncaught(t->id, what);
    kill_process(t->proc);
  }
  exit_task();
}

int spawn_task(const std::function<void()> &fn, int proc, const char *role, size_t stack) {
  if (!W) harness_error("spawn_task outside a run");
  Task *t = new Task;
  t->id = (int)W->tasks.size();
  t->proc = proc;
  t->fn = fn;
  t->role = role;
  t->stack_size = stack;
  t->stack = stack_get(stack);
  t->prio = (W->rng.next() | (1ull << 40));
  t->tls = tls_fresh();
  getcontext(&t->ctx);
  t->ctx.uc_stack.ss_sp = t->stack;
  t->ctx.uc_stack.ss_size = t->stack_size;
  t->ctx.uc_link = nullptr;
  makecontext(&t->ctx, (void (*)())trampoline, 0);
  W->tasks.push_back(t);
  if ((int)W->tasks.size() > W->res.max_tasks) W->res.max_tasks = (int)W->tasks.size();
  return t->id;
}

int new_process() {
  W->procs.emplace_back();
  return (int)W->procs.size() - 1;
}
bool proc_alive(int proc) { return W && proc >= 0 && proc < (int)W->procs.size() && W->procs[proc].alive; }
int task_proc(int task) { return W->tasks[task]->proc; }
int n_tasks() { return W ? (int)W->tasks.size() : 0; }
TState task_state(int task) { return W->tasks[task]->state; }
void set_on_proc_death(const std::function<void(int)> &f) { W->on_proc_death = f; }
void set_on_idle(const std::function<bool()> &f) { W->on_idle = f; }
void set_on_decision(const std::function<void()> &f) { W->on_decision = f; }
void set_on_point(const std::function<void(int, long)> &f) { W->on_point = f; }
void set_on_proc_switch(const std::function<void(int, int)> &f) { W->on_proc_switch = f; }
void set_on_uncaught(const std::function<void(int, const std::string &)> &f) { W->on_uncaught = f; }

static void finish_task(Task *t, TState st) {
  t->state = st;
  wake(K_JOIN, t->id);
}

void kill_process(int proc) {
  if (!W || proc < 0 || proc >= (int)W->procs.size()) return;
  if (!W->procs[proc].alive) {
    if (W->current->proc == proc && W->current != &W->mainctx) decide(K_EXIT, W->current->id);
    return;
  }
  W->procs[proc].alive = false;
  if (W->current != &W->mainctx) W->current->in_harness++;   // everything from here on is harness code (the task never returns to the code under test if it dies)
  for (Task *t : W->tasks)
    if (t->proc == proc && t->state != T_DONE) finish_task(t, T_DEAD);
  if (W->on_proc_death) W->on_proc_death(proc);
  if (W->current != &W->mainctx && W->current->proc != proc) W->current->in_harness--;
  if (W->current != &W->mainctx && W->current->proc == proc) {
    decide(K_EXIT, W->current->id);
    harness_error("a dead task was resumed");
  }
}

void exit_task() {
  Task *t = W->current;
  t->in_harness++;
  if (t->state != T_DEAD) {
    // a thread that ends destroys its thread_local objects
    while (!t->tls_dtors.empty()) { auto d = t->tls_dtors.back(); t->tls_dtors.pop_back(); t->in_harness--; d.first(d.second); t->in_harness++; }
    record(K_EXIT, t->id, 0);
    finish_task(t, T_DONE);
    // the main task of a process returning = process exit
    bool is_main = true;
    for (Task *o : W->tasks)
      if (o->proc == t->proc && o->id < t->id) { is_main = false; break; }
    if (is_main && W->procs[t->proc].alive) {
      W->procs[t->proc].alive = false;
      W->procs[t->proc].ended = true;
      for (Task *o : W->tasks)
        if (o->proc == t->proc && o->state != T_DONE && o != t) finish_task(o, T_DEAD);
      if (W->on_proc_death) W->on_proc_death(t->proc);
    }
  }
  decide(K_EXIT, t->id);
  harness_error("a finished task was resumed");
}

void block_on(int kind, long obj) {
  Task *t = W->current;
  t->state = T_BLOCKED;
  t->wait_kind = kind;
  t->wait_obj = obj;
  decide(kind, obj);
}

void wake(int kind, long obj) {
  for (Task *t : W->tasks)
    if (t->state == T_BLOCKED && t->wait_kind == kind && t->wait_obj == obj) t->state = T_RUNNABLE;
}

// A data choice made by the scheduler (which waiter a signal wakes): part of the decision stream, so that it is
// seeded, recorded, replayed and minimised exactly like the choice of the next task.  Encoded as -(1+choice).
int choose(int n) {
  if (n <= 1 || !W) return 0;
  Result &r = W->res;
  long m = r.multi++;
  int c = 0;
  if (W->cfg.use_deviations) {
    while (W->dev_pos < W->cfg.deviations.size() && W->cfg.deviations[W->dev_pos].first < m) W->dev_pos++;
    if (W->dev_pos < W->cfg.deviations.size() && W->cfg.deviations[W->dev_pos].first == m) {
      int want = -(W->cfg.deviations[W->dev_pos].second) - 1;
      if (want >= 0 && want < n) c = want;
    }
  } else if (W->cfg.strat.type == Strategy::REPLAY) {
    int want = W->replay_pos < W->cfg.replay.size() ? -(W->cfg.replay[W->replay_pos]) - 1 : -1;
    W->replay_pos++;
    if (want >= 0 && want < n) c = want;
    else if (W->cfg.replay_strict) { r.outcome = RUN_DIVERGED; back_to_main(); }
  } else if (W->cfg.strat.type != Strategy::DEFAULT) {
    c = (int)W->rng.below((uint64_t)n);
  }
  r.decisions.push_back(-(c + 1));
  if (c != 0) r.deviations.emplace_back(m, -(c + 1));
  r.fingerprint = hmix(r.fingerprint, (uint64_t)(1000003 + c * 31 + n));
  return c;
}

int wake_one(int kind, long obj) {
  std::vector<Task *> ws;
  for (Task *t : W->tasks)
    if (t->state == T_BLOCKED && t->wait_kind == kind && t->wait_obj == obj) ws.push_back(t);
  if (ws.empty()) return -1;
  Task *t = ws[(size_t)choose((int)ws.size())];
  t->state = T_RUNNABLE;
  return t->id;
}

void join_task(int task) {
  point(K_JOIN, task);
  while (W->tasks[task]->state != T_DONE && W->tasks[task]->state != T_DEAD) block_on(K_JOIN, task);
  record(K_JOINED, task, 0);
}

}  // namespace sim
// thread_local objects with a destructor register it here; inside a run it belongs to the current task
extern "C" int __cxa_thread_atexit(void (*dtor)(void *), void *obj, void *dso) {
  using namespace sim;
  if (W && W->current && W->current != &W->mainctx) {
    W->current->in_harness++;
    W->current->tls_dtors.emplace_back(dtor, obj);
    W->current->in_harness--;
    return 0;
  }
  typedef int (*impl_t)(void (*)(void *), void *, void *);
  static impl_t impl = (impl_t)dlsym(RTLD_NEXT, "__cxa_thread_atexit_impl");
  return impl ? impl(dtor, obj, dso) : 0;
}
namespace sim {

// ---- run ---------------------------------------------------------------------
Result run(const Config &cfg, const std::function<void()> &main_fn, size_t main_stack) {
  if (W) harness_error("sim::run is not re-entrant");
  arm_watchdog();
  World w;
  W = &w;
  w.cfg = cfg;
  w.rng.seed(cfg.sched_seed, 0x5c4ed);
  w.procs.emplace_back();
  w.mainctx.id = -1;
  w.mainctx.role = "scheduler";
  tls_locate();
  w.mainctx.tls = tls_fresh();  // overwritten with the live content at the first switch
  w.current = &w.mainctx;
  if (cfg.strat.type == Strategy::PCT) {
    for (int i = 0; i + 1 < cfg.strat.d; i++) w.pct_points.push_back(1 + (long)w.rng.below((uint64_t)(cfg.pct_span > 1 ? cfg.pct_span : 1)));
  }
  spawn_task(main_fn, 0, "main", main_stack);
  decide(K_START, 0);
  // back here when the run is over
  w.finished = true;
  for (Task *t : w.tasks) {
    if (t->stack) {
      if (t->state == T_DONE || !t->started) stack_put(t->stack, t->stack_size);
      else munmap(t->stack - 4096, t->stack_size + 4096);  // abandoned frames: do not reuse
    }
    free(t->tls);
    delete t;
  }
  free(w.mainctx.tls);
  Result r = std::move(w.res);
  W = nullptr;
  return r;
}

// ---- watchdog: a task that never reaches a decision point -----------------------------------------------------
// Pre-emption happens only at intercepted calls.  A task that loops without making any (a genuine endless loop, or
// a spin-wait on an atomic variable without yield) would hang the worker for good.  A real-time watchdog looks at
// the step counter every 2 s; after 10 s without a step inside a run it ends the worker and says which of the
// two it was: if another task could run, the spinner may be waiting for it (unsupported, harness error), otherwise
// nothing can ever make progress (reported as a hang of the code under test).
static volatile long g_wd_last = -1;
static volatile int g_wd_stalls = 0;
static void on_watchdog(int) {
  if (!W || W->finished) { g_wd_stalls = 0; g_wd_last = -1; return; }
  long now = W->res.steps + W->res.switches;
  if (now != g_wd_last) { g_wd_last = now; g_wd_stalls = 0; return; }
  if (++g_wd_stalls < 5) return;
  int others = 0;
  for (Task *t : W->tasks) if (t->state == T_RUNNABLE && t != W->current) others++;
  char b[200];
  int n = snprintf(b, sizeof b, "\nSTALL %s task=%d other_runnable=%d\n", others ? "SPIN" : "HANG", W->current ? W->current->id : -1, others);
  if (syscall(SYS_write, 1, b, (size_t)n) < 0) {}  // never the interposed write(): its tables may be what the code under test corrupted
  syscall(SYS_exit_group, others ? 5 : 4);
}
static bool g_wd_armed = false;
void rearm_watchdog() { g_wd_armed = false; g_wd_last = -1; g_wd_stalls = 0; }
static void arm_watchdog() {
  if (g_wd_armed) return;
  g_wd_armed = true;
  struct sigaction sa;
  memset(&sa, 0, sizeof sa);
  sa.sa_handler = on_watchdog;
  sa.sa_flags = SA_RESTART;
  sigaction(SIGALRM, &sa, nullptr);
  struct itimerval it;
  it.it_interval.tv_sec = 2; it.it_interval.tv_usec = 0;
  it.it_value = it.it_interval;
  setitimer(ITIMER_REAL, &it, nullptr);
}

// ---- crash reporting -----------------------------------------------------------
static char g_altstack[1 << 16];
static void on_signal(int sig) {
  const char *n = sig == SIGSEGV ? "SIGSEGV" : sig == SIGABRT ? "SIGABRT" : sig == SIGFPE ? "SIGFPE" : sig == SIGBUS ? "SIGBUS" : "SIGILL";
  if (g_on_crash) g_on_crash(n);
  syscall(SYS_exit_group, 3);
}
void install_crash_reporter(void (*on_crash)(const char *)) {
  g_on_crash = on_crash;
  stack_t ss;
  ss.ss_sp = g_altstack;
  ss.ss_size = sizeof g_altstack;
  ss.ss_flags = 0;
  sigaltstack(&ss, nullptr);
  struct sigaction sa;
  memset(&sa, 0, sizeof sa);
  sa.sa_handler = on_signal;
  sa.sa_flags = SA_ONSTACK | SA_NODEFER;
  for (int s : {SIGSEGV, SIGABRT, SIGFPE, SIGBUS, SIGILL}) sigaction(s, &sa, nullptr);
  std::set_terminate([] {
    if (g_on_crash) g_on_crash("terminate");
    syscall(SYS_exit_group, 3);
  });
}

}  // namespace sim
