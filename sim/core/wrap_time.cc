// Sleeping and reading clocks inside a simulated run: the harness executable defines the libc entry points, so
// that a retry loop with sleeps (e.g. try_lock + back-off) or a timed wait neither burns real time nor sees the
// real clock.  A sleeping task is not runnable until simulated time has advanced past its wake-up time; when
// nothing else can run, the clock jumps.  Outside a run the calls go to glibc.
#include "core/sim.h"

#include <cerrno>
#include <ctime>
#include <dlfcn.h>
#include <sched.h>
#include <sys/time.h>
#include <unistd.h>

namespace {
template <class F> F real_sym(const char *name) {
  void *p = dlsym(RTLD_NEXT, name);
  if (!p) sim::harness_error("cannot resolve the real %s", name);
  return (F)p;
}
const long long EPOCH_NS = 1700000000LL * 1000000000LL;
}  // namespace

extern "C" {

int nanosleep(const struct timespec *req, struct timespec *rem) {
  typedef int (*fn)(const struct timespec *, struct timespec *);
  static fn real = real_sym<fn>("nanosleep");
  if (!sim::active()) return real(req, rem);
  sim::Harness harness_scope;
  sim::sleep_ns(req ? (long long)req->tv_sec * 1000000000LL + req->tv_nsec : 0);
  if (rem) { rem->tv_sec = 0; rem->tv_nsec = 0; }
  return 0;
}

int clock_nanosleep(clockid_t clk, int flags, const struct timespec *req, struct timespec *rem) {
  typedef int (*fn)(clockid_t, int, const struct timespec *, struct timespec *);
  static fn real = real_sym<fn>("clock_nanosleep");
  if (!sim::active()) return real(clk, flags, req, rem);
  sim::Harness harness_scope;
  long long ns = req ? (long long)req->tv_sec * 1000000000LL + req->tv_nsec : 0;
  if (flags & TIMER_ABSTIME) {
    long long now = sim::now_ns() + (clk == CLOCK_REALTIME ? EPOCH_NS : 0);
    ns = ns > now ? ns - now : 0;
  }
  sim::sleep_ns(ns);
  if (rem) { rem->tv_sec = 0; rem->tv_nsec = 0; }
  return 0;
}

int usleep(useconds_t us) {
  typedef int (*fn)(useconds_t);
  static fn real = real_sym<fn>("usleep");
  if (!sim::active()) return real(us);
  sim::Harness harness_scope;
  sim::sleep_ns((long long)us * 1000LL);
  return 0;
}

unsigned int sleep(unsigned int s) {
  typedef unsigned int (*fn)(unsigned int);
  static fn real = real_sym<fn>("sleep");
  if (!sim::active()) return real(s);
  sim::Harness harness_scope;
  sim::sleep_ns((long long)s * 1000000000LL);
  return 0;
}

int sched_yield(void) {
  typedef int (*fn)(void);
  static fn real = real_sym<fn>("sched_yield");
  if (!sim::active()) return real();
  sim::Harness harness_scope;
  sim::sleep_ns(0);
  return 0;
}

int clock_gettime(clockid_t clk, struct timespec *ts) {
  typedef int (*fn)(clockid_t, struct timespec *);
  static fn real = real_sym<fn>("clock_gettime");
  if (!sim::active()) return real(clk, ts);
  long long ns = sim::now_ns() + (clk == CLOCK_REALTIME || clk == CLOCK_REALTIME_COARSE ? EPOCH_NS : 0);
  ts->tv_sec = (time_t)(ns / 1000000000LL);
  ts->tv_nsec = (long)(ns % 1000000000LL);
  return 0;
}

int gettimeofday(struct timeval *tv, void *tz) {
  typedef int (*fn)(struct timeval *, void *);
  static fn real = real_sym<fn>("gettimeofday");
  if (!sim::active()) return real(tv, tz);
  long long ns = sim::now_ns() + EPOCH_NS;
  if (tv) { tv->tv_sec = (time_t)(ns / 1000000000LL); tv->tv_usec = (suseconds_t)((ns % 1000000000LL) / 1000); }
  return 0;
}
}
