// Generic command line, batch loop, replay and minimisation shared by all
// engines.  An engine type E provides:
//   struct E::Plan : sim::PlanBase {...}
//   static const char *name(); static const char *property();
//   static Plan generate(uint64_t seed, long index, const std::string &tier);
//   static Report execute(const Plan &, const SchedSpec &);     // one simulated run (+ its reference run)
//   static std::vector<Plan> simplify(const Plan &);            // strictly simpler candidate plans
//   static js::Value to_json(const Plan &); static Plan from_json(const js::Value &);
//   static void setup(int argc, char **argv);                   // once per process
#pragma once
#include "core/json.h"
#include "core/sim.h"

#include <algorithm>
#include <chrono>
#include <cstring>
#include <map>
#include <set>
#include <string>
#include <cerrno>
#include <csignal>
#include <poll.h>
#include <sys/syscall.h>
#include <sys/wait.h>
#include <unistd.h>
#include <vector>

namespace sim {

struct PlanBase {
  uint64_t seed = 0;   // VERIF_SEED
  long index = 0;      // run index within the batch
  uint64_t sched_seed = 1;
  int strat_type = Strategy::RW;
  double strat_p = 0.8;
  int strat_d = 2;
  Strategy strategy() const { Strategy s; s.type = (Strategy::Type)strat_type; s.p = strat_p; s.d = strat_d; return s; }
  void base_to_json(js::Value &v) const {
    v.set("seed", (long long)seed).set("index", index).set("sched_seed", (long long)sched_seed)
     .set("strat_type", strat_type).set("strat_p", strat_p).set("strat_d", strat_d).set("strategy", strategy().name());
  }
  void base_from_json(const js::Value &v) {
    seed = (uint64_t)v.num("seed", 0); index = (long)v.num("index", 0); sched_seed = (uint64_t)v.num("sched_seed", 1);
    strat_type = (int)v.num("strat_type", 0); strat_p = v.has("strat_p") ? v.at("strat_p").d : 0.8; strat_d = (int)v.num("strat_d", 2);
  }
  void pick_strategy(Rng &r) {
    sched_seed = r.next() >> 1;
    int k = (int)r.below(10);
    if (k < 3) strat_type = Strategy::RW;
    else if (k < 7) { strat_type = Strategy::STICKY; double ps[3] = {0.5, 0.8, 0.95}; strat_p = ps[r.below(3)]; }
    else { strat_type = Strategy::PCT; strat_d = 1 + (int)r.below(3); }
  }
};

// how the scheduler is driven for one execution
struct SchedSpec {
  enum Mode { FROM_PLAN, REPLAY_STRICT, DEVIATIONS } mode = FROM_PLAN;
  std::vector<int> decisions;
  std::vector<std::pair<long, int>> deviations;
  bool trace = false;
  void apply(Config &c, const PlanBase &p) const {
    c.sched_seed = p.sched_seed;
    c.strat = p.strategy();
    c.trace = trace;
    if (mode == REPLAY_STRICT) { c.strat.type = Strategy::REPLAY; c.replay = decisions; c.replay_strict = true; }
    if (mode == DEVIATIONS) { c.use_deviations = true; c.deviations = deviations; }
  }
};

struct Report {
  std::string cls;       // "" = property held on this run; otherwise the violation class
  std::string key;       // structural signature used to match known findings
  std::string detail;
  bool diverged = false; // strict replay could not follow its decision list
  uint64_t fingerprint = 0, shape = 0;
  long steps = 0, multi = 0, switches = 0, sim_time = 0;
  int max_tasks = 0, max_blocked = 0;
  std::vector<int> decisions;
  std::vector<std::pair<long, int>> deviations;
  std::map<std::string, long> counters;        // faults fired, probes, observations ("fault.x", "probe.y", "obs.z")
  std::vector<uint64_t> states;                // abstract states visited
  std::vector<std::string> trace;
  js::Value history = js::Value::arr();        // short readable history for samples / replay files
  js::Value replacement_plan;                  // set when the violating execution was a derived plan (enumeration): report and shrink that one

  void absorb(const Result &r) {
    fingerprint = hmix(fingerprint, r.fingerprint); shape = hmix(shape, r.shape);
    steps += r.steps; multi += r.multi; switches += r.switches;
    max_tasks = std::max(max_tasks, r.max_tasks); max_blocked = std::max(max_blocked, r.max_blocked);
  }
};

// ---- a Report as JSON, for executions isolated in a forked child ---------------------------------------------
inline js::Value report_to_json(const Report &r) {
  js::Value v = js::Value::obj();
  v.set("cls", r.cls).set("key", r.key).set("detail", r.detail).set("diverged", r.diverged).set("fp", js::hex(r.fingerprint)).set("shape", js::hex(r.shape))
   .set("steps", r.steps).set("multi", r.multi).set("switches", r.switches).set("sim_time", r.sim_time).set("max_tasks", r.max_tasks).set("max_blocked", r.max_blocked)
   .set("decisions", js::Value::arr_of(r.decisions));
  js::Value dv = js::Value::arr();
  for (auto &d : r.deviations) dv.push(js::Value::arr().push(d.first).push(d.second));
  v.set("deviations", dv);
  js::Value c = js::Value::obj();
  for (auto &kv : r.counters) c.set(kv.first, kv.second);
  v.set("counters", c);
  js::Value st = js::Value::arr();
  for (uint64_t x : r.states) st.push(js::hex(x));
  v.set("states", st).set("trace", js::Value::arr_of(r.trace)).set("history", r.history).set("replacement_plan", r.replacement_plan);
  return v;
}
inline Report report_from_json(const js::Value &v) {
  Report r;
  r.cls = v.str("cls"); r.key = v.str("key"); r.detail = v.str("detail"); r.diverged = v.at("diverged").b;
  r.fingerprint = strtoull(v.str("fp").c_str(), nullptr, 16); r.shape = strtoull(v.str("shape").c_str(), nullptr, 16);
  r.steps = (long)v.num("steps", 0); r.multi = (long)v.num("multi", 0); r.switches = (long)v.num("switches", 0); r.sim_time = (long)v.num("sim_time", 0);
  r.max_tasks = (int)v.num("max_tasks", 0); r.max_blocked = (int)v.num("max_blocked", 0);
  for (auto &d : v.at("decisions").a) r.decisions.push_back((int)d.i);
  for (auto &d : v.at("deviations").a) r.deviations.emplace_back((long)d.a[0].i, (int)d.a[1].i);
  for (auto &kv : v.at("counters").o) r.counters[kv.first] = (long)kv.second.i;
  for (auto &x : v.at("states").a) r.states.push_back(strtoull(x.s.c_str(), nullptr, 16));
  for (auto &x : v.at("trace").a) r.trace.push_back(x.s);
  r.history = v.at("history"); r.replacement_plan = v.at("replacement_plan");
  return r;
}

inline double wall_now() {
  return std::chrono::duration<double>(std::chrono::steady_clock::now().time_since_epoch()).count();
}

template <class E> struct Driver {
  using Plan = typename E::Plan;

  // One execution in a forked child: every execution starts from the same process image (after E::setup), so that
  // process-global state of the code under test (a function-local static cache, say) cannot leak from one execution
  // into the next.  A child that dies reports class "crash".
  static bool &isolate() { static bool v = true; return v; }
  static void kill_real(pid_t pid) { syscall(SYS_kill, pid, SIGKILL); }  // kill() itself is simulated in the xtp engine
  static Report run_plan(const Plan &p, const SchedSpec &spec) {
    if (!isolate()) return E::execute(p, spec);
    int fds[2];
    if (pipe(fds) != 0) harness_error("pipe failed");
    fflush(stdout);
    pid_t pid = fork();
    if (pid < 0) harness_error("fork failed");
    if (pid == 0) {
      close(fds[0]);
      rearm_watchdog();
      Report r = E::execute(p, spec);
      std::string out = report_to_json(r).dump();
      size_t off = 0;
      while (off < out.size()) { long n = syscall(SYS_write, fds[1], out.data() + off, out.size() - off); if (n <= 0) break; off += (size_t)n; }
      close(fds[1]);
      fflush(stdout);
      syscall(SYS_exit_group, 0);
    }
    close(fds[1]);
    std::string in;
    char buf[65536];
    // backstop: a child that neither finishes nor is ended by its own watchdog (its signal handlers may run on a
    // heap the code under test has corrupted) is killed after 300 s of real time and counted as a crash of that run
    int waited_s = 0;
    bool timed_out = false;
    for (;;) {
      struct pollfd pf = {fds[0], POLLIN, 0};
      int pr = poll(&pf, 1, 1000);
      if (pr == 0) { if (++waited_s >= 300) { timed_out = true; kill_real(pid); break; } continue; }
      if (pr < 0) { if (errno == EINTR) continue; break; }
      long n = syscall(SYS_read, fds[0], buf, sizeof buf);
      if (n > 0) { in.append(buf, (size_t)n); continue; }
      if (n < 0 && errno == EINTR) continue;
      break;
    }
    close(fds[0]);
    int status = 0;
    waitpid(pid, &status, 0);
    if (timed_out) in.clear();
    if (WIFEXITED(status) && (WEXITSTATUS(status) == 4 || WEXITSTATUS(status) == 5 || WEXITSTATUS(status) == 2)) {
      fflush(stdout);  // the child's watchdog (STALL line) or a harness error ended the run: pass it on unchanged
      syscall(SYS_exit_group, WEXITSTATUS(status));
    }
    if (!WIFEXITED(status) || WEXITSTATUS(status) != 0 || in.empty()) {
      Report r;
      r.cls = "crash";
      r.key = "crash:child";
      r.detail = "the code under test ended the isolated run abnormally (status " + std::to_string(status) + ")";
      return r;
    }
    return report_from_json(js::parse(in));
  }

  static js::Value result_json(const Plan &p, const Report &r, bool full) {
    js::Value v = js::Value::obj();
    v.set("index", p.index).set("cls", r.cls).set("key", r.key).set("detail", r.detail)
     .set("fp", js::hex(r.fingerprint)).set("shape", js::hex(r.shape)).set("steps", r.steps).set("multi", r.multi)
     .set("switches", r.switches).set("max_tasks", r.max_tasks).set("max_blocked", r.max_blocked).set("sim_time", r.sim_time)
     .set("strategy", p.strategy().name());
    js::Value c = js::Value::obj();
    for (auto &kv : r.counters) c.set(kv.first, kv.second);
    v.set("counters", c);
    if (full) {
      v.set("plan", r.replacement_plan.t == js::Value::OBJ ? r.replacement_plan : E::to_json(p));
      v.set("decisions", js::Value::arr_of(r.decisions));
      v.set("history", r.history);
    }
    return v;
  }

  static void write_replay(const std::string &path, const Plan &p, const Report &r, const js::Value &extra) {
    js::Value v = js::Value::obj();
    v.set("property", E::property()).set("engine", E::name()).set("seed", (long long)p.seed).set("index", p.index);
    v.set("plan", E::to_json(p));
    v.set("decisions", js::Value::arr_of(r.decisions));
    js::Value e = js::Value::obj();
    e.set("class", r.cls).set("key", r.key).set("fingerprint", js::hex(r.fingerprint)).set("detail", r.detail);
    v.set("expect", e);
    v.set("history", r.history);
    v.set("minimisation", extra);
    std::ofstream f(path);
    f << v.dump() << "\n";
  }

  // ---- minimisation: plan first, then schedule (DESIGN.md 2.5) ----------------
  static bool shrink(Plan &plan, Report &rep, js::Value &info, int max_exec = 400) {
    const std::string cls = rep.cls;
    int execs = 0, plan_steps = 0;
    long orig_dev = (long)rep.deviations.size();
    bool progress = true;
    while (progress && execs < max_exec) {
      progress = false;
      for (Plan &cand : E::simplify(plan)) {
        bool hit = false;
        for (int k = 0; k < 12 && execs < max_exec && !hit; k++) {
          Plan c = cand;
          if (k > 0) { Rng r; r.seed(plan.sched_seed, (uint64_t)k + 77); c.pick_strategy(r); }
          Report rr = run_plan(c, SchedSpec());
          execs++;
          if (rr.cls == cls) { plan = c; rep = rr; hit = true; }
        }
        if (hit) { progress = true; plan_steps++; break; }
      }
    }
    // schedule: ddmin over deviations from the default policy
    std::vector<std::pair<long, int>> dev = rep.deviations;
    size_t n = 2;
    max_exec = execs + 300;
    while (dev.size() >= 1 && execs < max_exec) {
      size_t chunk = std::max<size_t>(1, dev.size() / n);
      bool reduced = false;
      for (size_t start = 0; start < dev.size() && execs < max_exec; start += chunk) {
        std::vector<std::pair<long, int>> trial;
        for (size_t i = 0; i < dev.size(); i++) if (i < start || i >= start + chunk) trial.push_back(dev[i]);
        SchedSpec ss; ss.mode = SchedSpec::DEVIATIONS; ss.deviations = trial;
        Report rr = run_plan(plan, ss);
        execs++;
        if (rr.cls == cls) {
          dev = rr.deviations;  // the deviations that were actually taken
          rep = rr;
          reduced = true;
          n = std::max<size_t>(2, n - 1);
          break;
        }
      }
      if (!reduced) {
        if (chunk == 1) break;
        n = std::min(dev.size(), n * 2);
      }
    }
    // final: the decision list of the minimised run must replay strictly
    SchedSpec fs; fs.mode = SchedSpec::REPLAY_STRICT; fs.decisions = rep.decisions;
    Report fr = run_plan(plan, fs);
    execs++;
    bool ok = (fr.cls == cls && fr.fingerprint == rep.fingerprint && !fr.diverged);
    if (ok) rep = fr;
    info = js::Value::obj();
    info.set("executions", execs).set("plan_steps", plan_steps).set("deviations_before", orig_dev)
        .set("deviations_after", (long)rep.deviations.size()).set("decisions", (long)rep.decisions.size()).set("strict_replay_ok", ok);
    return ok;
  }

  static void crash_line(const char *what) {
    char b[160];
    int n = snprintf(b, sizeof b, "\nCRASH %s\n", what);
    if (syscall(SYS_write, 1, b, (size_t)n) < 0) {}  // raw: the engine's own write() consults tables a crashing run may have corrupted
  }

  static int usage() {
    fprintf(stderr,
            "usage: %s run --seed S --from A --to B [--tier quick|thorough] [--no-isolate]\n"
            "       %s one --seed S --index K [--trace] [--tier T]\n"
            "       %s shrink --seed S --index K --out FILE [--tier T]\n"
            "       %s replay FILE [--trace]\n", E::name(), E::name(), E::name(), E::name());
    return 2;
  }

  static int main(int argc, char **argv) {
    if (argc < 2) return usage();
    std::string cmd = argv[1];
    uint64_t seed = 1;
    long from = 0, to = 1, index = 0;
    std::string tier = "quick", out, file;
    bool trace = false;
    for (int i = 2; i < argc; i++) {
      std::string a = argv[i];
      auto nxt = [&]() -> const char * { if (i + 1 >= argc) { usage(); exit(2); } return argv[++i]; };
      if (a == "--seed") seed = strtoull(nxt(), nullptr, 10);
      else if (a == "--from") from = atol(nxt());
      else if (a == "--to") to = atol(nxt());
      else if (a == "--index") index = atol(nxt());
      else if (a == "--tier") tier = nxt();
      else if (a == "--out") out = nxt();
      else if (a == "--trace") trace = true;
      else if (a == "--isolate") isolate() = true;
      else if (a == "--no-isolate") isolate() = false;
      else if (a[0] != '-') file = a;
      else return usage();
    }
    setvbuf(stdout, nullptr, _IOLBF, 0);
    E::setup(argc, argv);
    install_crash_reporter(crash_line);

    if (cmd == "run") {
      std::set<uint64_t> states;
      double t0 = wall_now();
      for (long k = from; k < to; k++) {
        printf("START %ld\n", k);
        Plan p = E::generate(seed, k, tier);
        Report r = run_plan(p, SchedSpec());
        for (uint64_t s : r.states) states.insert(s);
        bool sample = (k - from) < 2 || !r.cls.empty();
        printf("R %s\n", result_json(p, r, sample).dump().c_str());
      }
      std::string st = "STATES";
      for (uint64_t s : states) { st += ' '; st += js::hex(s); }
      printf("%s\n", st.c_str());
      {  // every thread of the code under test must have been a simulated task
        FILE *f = fopen("/proc/self/status", "r");
        char line[256];
        long threads = 1;
        while (f && fgets(line, sizeof line, f)) if (strncmp(line, "Threads:", 8) == 0) threads = atol(line + 8);
        if (f) fclose(f);
        if (threads != 1) harness_error("%ld OS threads exist at the end of the batch: the code under test created threads outside the simulated pthread API", threads);
      }
      printf("DONE %ld %.3f\n", to - from, wall_now() - t0);
      return 0;
    }
    if (cmd == "one") {
      Plan p = E::generate(seed, index, tier);
      SchedSpec ss; ss.trace = trace;
      Report r = run_plan(p, ss);
      for (auto &l : r.trace) printf("%s\n", l.c_str());
      printf("R %s\n", result_json(p, r, true).dump().c_str());
      // determinism self-check: same plan again must give the same fingerprint
      Report r2 = run_plan(p, SchedSpec());
      printf("AGAIN fp=%s %s\n", js::hex(r2.fingerprint).c_str(), r2.fingerprint == r.fingerprint ? "same" : "DIFFERENT");
      return r.cls.empty() ? 0 : 1;
    }
    if (cmd == "shrink") {
      Plan p = E::generate(seed, index, tier);
      Report r = run_plan(p, SchedSpec());
      if (r.cls.empty()) { printf("SHRINK no-violation\n"); return 3; }
      if (r.replacement_plan.t == js::Value::OBJ) { p = E::from_json(r.replacement_plan); r = run_plan(p, SchedSpec()); }
      Report r2 = run_plan(p, SchedSpec());
      if (r2.fingerprint != r.fingerprint || r2.cls != r.cls) { printf("SHRINK nondeterministic fp %s vs %s\n", js::hex(r.fingerprint).c_str(), js::hex(r2.fingerprint).c_str()); return 2; }
      js::Value info;
      std::string cls0 = r.cls;
      bool ok = shrink(p, r, info);
      if (!ok) { printf("SHRINK strict-replay-failed class=%s\n", cls0.c_str()); return 2; }
      write_replay(out, p, r, info);
      printf("SHRUNK class=%s key=%s out=%s info=%s\n", r.cls.c_str(), r.key.c_str(), out.c_str(), info.dump().c_str());
      return 0;
    }
    if (cmd == "replay") {
      js::Value v = js::load(file);
      Plan p = E::from_json(v.at("plan"));
      SchedSpec ss; ss.mode = SchedSpec::REPLAY_STRICT; ss.trace = trace;
      for (auto &d : v.at("decisions").a) ss.decisions.push_back((int)d.i);
      Report r = run_plan(p, ss);
      for (auto &l : r.trace) printf("%s\n", l.c_str());
      std::string ecls = v.at("expect").str("class"), efp = v.at("expect").str("fingerprint");
      printf("R %s\n", result_json(p, r, true).dump().c_str());
      if (r.diverged) { printf("REPLAY diverged\n"); return 2; }
      bool same = (r.cls == ecls);
      printf("REPLAY class=%s expected=%s fp=%s expected_fp=%s -> %s\n", r.cls.c_str(), ecls.c_str(), js::hex(r.fingerprint).c_str(),
             efp.c_str(), same ? (js::hex(r.fingerprint) == efp ? "REPRODUCED" : "REPRODUCED-CLASS-ONLY") : "NOT-REPRODUCED");
      if (!r.cls.empty()) printf("VIOLATION property=%s replay=%s\n", E::property(), file.c_str());
      return r.cls.empty() ? 0 : 1;
    }
    return usage();
  }
};

}  // namespace sim
