// Minimal JSON value, parser and writer (enough for replay files and result lines).
#pragma once
#include <cstdint>
#include <cstdio>
#include <cstdlib>
#include <fstream>
#include <sstream>
#include <stdexcept>
#include <string>
#include <utility>
#include <vector>

namespace js {

struct Value {
  enum T { NUL, BOOL, NUM, STR, ARR, OBJ } t = NUL;
  bool b = false;
  long long i = 0;
  double d = 0;
  bool is_int = true;
  std::string s;
  std::vector<Value> a;
  std::vector<std::pair<std::string, Value>> o;

  Value() = default;
  Value(bool v) : t(BOOL), b(v) {}
  Value(int v) : t(NUM), i(v), d(v) {}
  Value(long v) : t(NUM), i(v), d((double)v) {}
  Value(long long v) : t(NUM), i(v), d((double)v) {}
  Value(unsigned long v) : t(NUM), i((long long)v), d((double)v) {}
  Value(double v) : t(NUM), i((long long)v), d(v), is_int(false) {}
  Value(const char *v) : t(STR), s(v) {}
  Value(const std::string &v) : t(STR), s(v) {}
  static Value arr() { Value v; v.t = ARR; return v; }
  static Value obj() { Value v; v.t = OBJ; return v; }
  template <class X> static Value arr_of(const std::vector<X> &xs) { Value v = arr(); for (auto &x : xs) v.a.emplace_back(x); return v; }

  Value &set(const std::string &k, Value v) {
    for (auto &kv : o) if (kv.first == k) { kv.second = std::move(v); return *this; }
    o.emplace_back(k, std::move(v));
    return *this;
  }
  Value &push(Value v) { a.push_back(std::move(v)); return *this; }
  bool has(const std::string &k) const { for (auto &kv : o) if (kv.first == k) return true; return false; }
  const Value &at(const std::string &k) const {
    for (auto &kv : o) if (kv.first == k) return kv.second;
    throw std::runtime_error("json: missing key " + k);
  }
  long long num(const std::string &k, long long dflt) const { return has(k) ? at(k).i : dflt; }
  std::string str(const std::string &k, const std::string &dflt = "") const { return has(k) ? at(k).s : dflt; }

  static void esc(std::string &out, const std::string &s) {
    out += '"';
    for (unsigned char c : s) {
      if (c == '"') out += "\\\"";
      else if (c == '\\') out += "\\\\";
      else if (c == '\n') out += "\\n";
      else if (c == '\t') out += "\\t";
      else if (c == '\r') out += "\\r";
      else if (c < 0x20) { char b[8]; snprintf(b, sizeof b, "\\u%04x", c); out += b; }
      else out += (char)c;
    }
    out += '"';
  }
  void dump(std::string &out) const {
    switch (t) {
      case NUL: out += "null"; break;
      case BOOL: out += b ? "true" : "false"; break;
      case NUM: {
        char buf[40];
        if (is_int) snprintf(buf, sizeof buf, "%lld", i); else snprintf(buf, sizeof buf, "%.17g", d);
        out += buf;
        break;
      }
      case STR: esc(out, s); break;
      case ARR: {
        out += '[';
        for (size_t k = 0; k < a.size(); k++) { if (k) out += ','; a[k].dump(out); }
        out += ']';
        break;
      }
      case OBJ: {
        out += '{';
        for (size_t k = 0; k < o.size(); k++) { if (k) out += ','; esc(out, o[k].first); out += ':'; o[k].second.dump(out); }
        out += '}';
        break;
      }
    }
  }
  std::string dump() const { std::string s; dump(s); return s; }
};

struct Parser {
  const std::string &s;
  size_t p = 0;
  explicit Parser(const std::string &str) : s(str) {}
  void ws() { while (p < s.size() && (s[p] == ' ' || s[p] == '\n' || s[p] == '\t' || s[p] == '\r')) p++; }
  [[noreturn]] void fail(const char *m) { throw std::runtime_error(std::string("json parse error: ") + m + " at " + std::to_string(p)); }
  Value parse() {
    ws();
    if (p >= s.size()) fail("eof");
    char c = s[p];
    if (c == '{') {
      Value v = Value::obj();
      p++; ws();
      if (s[p] == '}') { p++; return v; }
      for (;;) {
        ws();
        Value k = parse();
        if (k.t != Value::STR) fail("key");
        ws();
        if (s[p] != ':') fail("colon");
        p++;
        v.o.emplace_back(k.s, parse());
        ws();
        if (s[p] == ',') { p++; continue; }
        if (s[p] == '}') { p++; return v; }
        fail("object");
      }
    }
    if (c == '[') {
      Value v = Value::arr();
      p++; ws();
      if (s[p] == ']') { p++; return v; }
      for (;;) {
        v.a.push_back(parse());
        ws();
        if (s[p] == ',') { p++; continue; }
        if (s[p] == ']') { p++; return v; }
        fail("array");
      }
    }
    if (c == '"') {
      Value v; v.t = Value::STR;
      p++;
      while (p < s.size() && s[p] != '"') {
        if (s[p] == '\\') {
          p++;
          char e = s[p++];
          if (e == 'n') v.s += '\n';
          else if (e == 't') v.s += '\t';
          else if (e == 'r') v.s += '\r';
          else if (e == 'u') { v.s += (char)strtol(s.substr(p, 4).c_str(), nullptr, 16); p += 4; }
          else v.s += e;
        } else v.s += s[p++];
      }
      p++;
      return v;
    }
    if (s.compare(p, 4, "true") == 0) { p += 4; return Value(true); }
    if (s.compare(p, 5, "false") == 0) { p += 5; return Value(false); }
    if (s.compare(p, 4, "null") == 0) { p += 4; return Value(); }
    size_t q = p;
    bool isint = true;
    while (q < s.size() && (isdigit((unsigned char)s[q]) || s[q] == '-' || s[q] == '+' || s[q] == '.' || s[q] == 'e' || s[q] == 'E')) {
      if (s[q] == '.' || s[q] == 'e' || s[q] == 'E') isint = false;
      q++;
    }
    if (q == p) fail("value");
    std::string n = s.substr(p, q - p);
    p = q;
    Value v; v.t = Value::NUM; v.is_int = isint;
    if (isint) { v.i = strtoll(n.c_str(), nullptr, 10); v.d = (double)v.i; }
    else { v.d = strtod(n.c_str(), nullptr); v.i = (long long)v.d; }
    return v;
  }
};

inline Value parse(const std::string &s) { Parser p(s); return p.parse(); }
inline Value load(const std::string &path) {
  std::ifstream f(path);
  if (!f) throw std::runtime_error("cannot open " + path);
  std::stringstream ss;
  ss << f.rdbuf();
  return parse(ss.str());
}
inline std::string hex(uint64_t v) { char b[24]; snprintf(b, sizeof b, "%016llx", (unsigned long long)v); return b; }

}  // namespace js
