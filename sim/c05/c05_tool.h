// Interface between the generic real-tool engine (c05_tool.cc) and the
// per-tool input generators (gen_<engine>.cc).
#pragma once
#include "core/engine.h"

#include <map>
#include <string>
#include <vector>

namespace c05tool {

struct Plan : sim::PlanBase {
  int N = 2;               // --nt of the run under test
  int F = 3;               // frames in the generated trajectory
  long first_frame = -1;   // -1: option not given
  long nframes = -1;
  uint64_t case_seed = 0;  // positions, box sizes
  int nmol = 8;            // molecules
  int chain = 3;           // beads per molecule
  int fmt = 0;             // 0 LAMMPS dump, 1 gro, 2 pdb, 3 xyz (box from the topology), 4 DL_POLY HISTORY
  int top_fmt = 0;         // --top: 0 generated XML topology, 1 gro, 2 pdb, 3 xyz (first frame written in that format; the same
                           //        TopologyReader object then reads it once per worker)
  int variant = 0;         // tool specific option bits
  int block = 0;           // block length (csg_stat)
  int vol_jitter = 0;      // 1: the box volume differs from frame to frame; 2: it changes every second or third frame only
  int lattice = 0;         // 1: single-bead molecules on distinct sites of four lines with spacing 0.25 nm in a 2.0 nm box, GRO format:
                           //    every pair distance inside the cut-off is exactly 0.25 or 0.5, all per-frame sums are exact in floating point
  long sparse_mask = 0;    // bit f set: frame f+1 places the molecules on a lattice wider than any cut-off (no inter-molecular pair)
  int corrupt_frame = 0;   // > 0 (gro and xyz trajectories): the atom-count line of this frame is garbage, the reader throws when it gets there
  int stall_s = 0;         // > 0: one allocation point of an evaluating worker sleeps this many simulated seconds (a stalled worker)
  long alloc_stride = 0;   // > 0: every alloc_stride-th C++ allocation of an evaluating worker is a decision point
};

struct Case {
  std::map<std::string, std::string> files;  // written to the input directory
  std::vector<std::string> args;             // without --nt; {IN} is replaced by the input directory
  std::map<std::string, std::string> cwd_files;  // files the tool expects in its working directory
};

// provided by gen_<engine>.cc
extern const char *engine_name;
extern const bool ordered;             // true: outputs must be byte-identical to --nt 1
extern const char *stdout_marker;      // lines of the tool's stdout containing this text are compared numerically (nullptr: none)
extern const char *stdout_branch_marker; // the number of stdout lines containing this text tells which numerical branch the tool took (nullptr: none)
extern const bool exact_lattice_plans;   // the tool's accumulations are exact on lattice plans: outputs must then be byte-identical even in unordered mode
extern const double conditioning_gate;  // numbers are compared only if the perturbed reference moves them by less than this (relative)
extern const double numeric_rel_tol;   // unordered mode: relative tolerance of the numeric comparison
extern bool g_perturb;                 // gen_trajectory moves every bead by one unit of the last printed digit, alternating in sign (conditioning reference)
void tool_generate(Plan &p, sim::Rng &r, const std::string &tier);  // fill the tool-specific plan fields
void tool_build(const Plan &p, Case &c);
js::Value tool_variant_json(const Plan &p);
bool tool_numbers_comparable(const Plan &p);  // unordered mode: false if the plan makes the tool's numerical problem rank deficient by construction
long selected_frames(const Plan &p);           // number of frames the selection options keep (model of --first-frame/--nframes)

// helpers for generators
std::string gen_topology_xml(const Plan &p, bool two_types, double box = 0);
const char *trj_file(const Plan &p);
// writes the topology file of the plan into c.files and returns its name ("topol.xml", "conf.gro", ...)
std::string add_topology(const Plan &p, Case &c, bool two_types, double box, bool need_xml = false);   // name of the trajectory file for the plan's format
std::string gen_trajectory(const Plan &p, double box, int nbeads_total);
std::string fmt_double(double v);

}  // namespace c05tool

int tool_main(int argc, char **argv);  // the tool's main(), renamed at compile time (-Dmain=tool_main)
