// Input generator for engine c05_orient: the real orientcorr (unordered mode).
#include "c05/c05_tool.h"

namespace c05tool {

const char *engine_name = "c05_orient";
const bool ordered = false;
const char *stdout_marker = nullptr;
const char *stdout_branch_marker = nullptr;
const double numeric_rel_tol = 1e-9;
const bool exact_lattice_plans = false;
const double conditioning_gate = 1e-2;

enum { V_SIMPLE = 1, V_FINE = 2 };

void tool_generate(Plan &p, sim::Rng &r, const std::string &) {
  p.variant = 0;
  if (r.chance(0.3)) p.variant |= V_SIMPLE;
  if (r.chance(0.4)) p.variant |= V_FINE;
  p.chain = 2 + (int)r.below(4);
}

js::Value tool_variant_json(const Plan &p) {
  js::Value v = js::Value::obj();
  v.set("nbmethod_simple", (p.variant & V_SIMPLE) != 0).set("nbins", (p.variant & V_FINE) ? 25 : 8);
  return v;
}

void tool_build(const Plan &p, Case &c) {
  double box = 1.7 + 0.1 * (double)(p.case_seed % 6);
  std::string topfile = add_topology(p, c, false, box);
  std::string trj = trj_file(p);
  c.files[trj] = gen_trajectory(p, box, p.nmol * p.chain);
  c.args = {"--top", "{IN}/" + topfile, "--trj", "{IN}/" + trj, "--cutoff", "0.7", "--nbins", (p.variant & V_FINE) ? "25" : "8",
            "--nbmethod", (p.variant & V_SIMPLE) ? "simple" : "grid"};
}

bool tool_numbers_comparable(const Plan &) { return true; }

}  // namespace c05tool
