// Generic C05 engine for the real threaded tools (csg_stat, orientcorr,
// csg_reupdate, partial_rdf, template_threaded): the tool's own main() runs
// in-process as task 0 on generated inputs, once with --nt 1 (reference, no
// scheduling freedom) and once with --nt k under a seeded schedule; the real
// trajectory reader runs behind a decorator with decision points inside.
// Oracle: same outcome, same set of output files, byte-identical (ordered mode)
// or numerically equal (unordered mode) contents.  DESIGN.md section 3.1.
#include "c05/c05_tool.h"
#include "c05/c05_common.h"

#include <votca/csg/topologyreader.h>
#include <votca/csg/trajectoryreader.h>

#include "dlpolytrajectoryreader.h"
#include "groreader.h"
#include "lammpsdumpreader.h"
#include "pdbreader.h"
#include <votca/csg/xyzreader.h>

#include <cmath>
#include <dirent.h>
#include <sys/stat.h>

using namespace votca;
using namespace c05;
using c05tool::Case;
using c05tool::Plan;

namespace {

// real reader behind enter/leave monitors with decision points inside
template <class Real> class Decorated : public csg::TrajectoryReader {
 public:
  bool Open(const std::string &file) override { count_ = 0; return real_.Open(file); }
  void Close() override { real_.Close(); }
  bool FirstFrame(csg::Topology &top) override { return read(top, true); }
  bool NextFrame(csg::Topology &top) override { return read(top, false); }

 private:
  bool read(csg::Topology &top, bool first) {
    sim::Harness harness_scope;
    Monitors &m = mon();
    sim::set_phase(PH_READING);
    m.reader.enter(U_READER_IN);
    bool ok = first ? real_.FirstFrame(top) : real_.NextFrame(top);
    // the real readers report the end one call late (they return !eof after reading a frame)
    count_++;
    m.delivered.push_back(count_);
    sim::event(U_FRAME, count_, ok);
    if (!ok) m.probes["eof_seen"]++;
    m.reader.leave(U_READER_OUT);
    sim::set_phase(PH_IDLE);
    if (ok && sim::self() >= 1) mark_evaluating(sim::self(), true);  // what follows until the next mutex operation is map + EvalConfiguration
    return ok;
  }
  Real real_;
  long count_ = 0;
};

std::string g_scratch;

void rm_dir_contents(const std::string &d) {
  DIR *dir = opendir(d.c_str());
  if (!dir) return;
  while (dirent *e = readdir(dir)) {
    if (e->d_name[0] == '.' && (e->d_name[1] == 0 || (e->d_name[1] == '.' && e->d_name[2] == 0))) continue;
    unlink((d + "/" + e->d_name).c_str());
  }
  closedir(dir);
}

std::map<std::string, std::string> read_dir(const std::string &d) {
  std::map<std::string, std::string> out;
  DIR *dir = opendir(d.c_str());
  if (!dir) return out;
  while (dirent *e = readdir(dir)) {
    if (e->d_name[0] == '.') continue;
    std::ifstream f(d + "/" + e->d_name, std::ios::binary);
    std::stringstream ss;
    ss << f.rdbuf();
    out[e->d_name] = ss.str();
  }
  closedir(dir);
  return out;
}

void write_file(const std::string &path, const std::string &content) {
  std::ofstream f(path, std::ios::binary);
  f << content;
}

struct Outcome {
  int exit_code = 0;
  std::string err, marked;
  long branch = 0;
  long alloc_taken = 0;
  std::map<std::string, std::string> files;
  sim::Result res;
  std::map<std::string, long> probes;
  std::vector<uint64_t> states;
  std::string uncaught;
  sim::MutexObs obs;
};

Outcome run_tool(const Plan &plan, const Case &c, int N, const std::string &outdir, const sim::SchedSpec &spec, long budget, bool reference) {
  Outcome o;
  rm_dir_contents(outdir);
  for (auto &kv : c.cwd_files) write_file(outdir + "/" + kv.first, kv.second);
  if (chdir(outdir.c_str()) != 0) sim::harness_error("chdir %s failed", outdir.c_str());
  mon().reset();
  sim::pthread_layer_reset();
  sim::Config cfg;
  if (reference) { cfg.strat.type = sim::Strategy::DEFAULT; cfg.sched_seed = 1; }
  else spec.apply(cfg, plan);
  cfg.budget = budget;
  cfg.pct_span = 14 * N + 10 * std::min(plan.F, 30) + 10;
  std::vector<std::string> args;
  args.push_back(c05tool::engine_name);
  for (auto a : c.args) {
    size_t p = a.find("{IN}");
    if (p != std::string::npos) a.replace(p, 4, g_scratch + "/in");
    args.push_back(a);
  }
  args.push_back("--nt");
  args.push_back(std::to_string(N));
  if (plan.first_frame >= 0) { args.push_back("--first-frame"); args.push_back(std::to_string(plan.first_frame)); }
  if (plan.nframes >= 0) { args.push_back("--nframes"); args.push_back(std::to_string(plan.nframes)); }
  std::vector<char *> argv;
  for (auto &a : args) argv.push_back(const_cast<char *>(a.c_str()));
  argv.push_back(nullptr);
  std::vector<uint64_t> states;
  {
    Silence quiet(c05tool::stdout_marker != nullptr);
    o.res = sim::run(cfg, [&] {
      install_phase_observer();
      long stall_countdown = plan.stall_s > 0 ? 1 + (long)(plan.case_seed % 7) : 0;
      if (!reference && plan.alloc_stride > 0)
        sim::set_alloc_points(plan.alloc_stride, (long)(plan.case_seed % 1000), [&stall_countdown, &plan] {
          if (!is_evaluating(sim::self())) return false;
          if (stall_countdown > 0 && --stall_countdown == 0) {  // this evaluation takes very long
            mon().probes["stalled_evaluation"]++;
            sim::sleep_ns((long long)plan.stall_s * 1000000000LL);
          }
          return true;
        });
      sim::set_on_decision([&] { if (states.size() < 100000) states.push_back(sim::abstract_state()); });
      sim::set_on_uncaught([&](int task, const std::string &what) { o.uncaught = "task " + std::to_string(task) + ": " + what; });
      o.exit_code = tool_main((int)argv.size() - 1, argv.data());
      o.alloc_taken = sim::alloc_points_taken();
    }, 16u << 20);
    o.err = quiet.err.str();
    if (c05tool::stdout_marker) {
      std::istringstream is(quiet.out.str());
      std::string line;
      while (std::getline(is, line)) {
        if (line.find(c05tool::stdout_marker) != std::string::npos) o.marked += line + "\n";
        if (c05tool::stdout_branch_marker && line.find(c05tool::stdout_branch_marker) != std::string::npos) o.branch++;
      }
    }
  }
  if (chdir(g_scratch.c_str()) != 0) {}
  o.obs = sim::mutex_obs();
  o.probes = mon().probes;
  o.probes["alloc_points"] = o.alloc_taken;
  std::sort(states.begin(), states.end());
  states.erase(std::unique(states.begin(), states.end()), states.end());
  o.states = std::move(states);
  o.files = read_dir(outdir);
  for (auto &kv : c.cwd_files) {
    auto it = o.files.find(kv.first);
    if (it != o.files.end() && it->second == kv.second) o.files.erase(it);  // untouched input
  }
  return o;
}

// numeric comparison for the unordered mode: same tokens, numbers equal to 1e-9 relative / 1e-12 absolute
bool numerically_equal(const std::string &a, const std::string &b, std::string &why, double rel = 1e-9) {
  std::istringstream sa(a), sb(b);
  std::string ta, tb;
  long n = 0;
  for (;;) {
    bool ha = (bool)(sa >> ta), hb = (bool)(sb >> tb);
    if (!ha && !hb) return true;
    if (ha != hb) { why = "different number of tokens"; return false; }
    n++;
    if (ta == tb) continue;
    char *ea, *eb;
    double da = strtod(ta.c_str(), &ea), db = strtod(tb.c_str(), &eb);
    if (*ea || *eb) { why = "token " + std::to_string(n) + ": '" + ta + "' vs '" + tb + "'"; return false; }
    if (std::isnan(da) && std::isnan(db)) continue;
    double diff = std::fabs(da - db), scale = std::max(std::fabs(da), std::fabs(db));
    if (diff > 1e-12 + rel * scale) { why = "token " + std::to_string(n) + ": " + ta + " vs " + tb; return false; }
  }
}

// largest relative difference between the numbers of two texts (infinity if they do not have the same shape)
double max_rel_diff(const std::string &a, const std::string &b) {
  std::istringstream sa(a), sb(b);
  std::string ta, tb;
  double worst = 0;
  for (;;) {
    bool ha = (bool)(sa >> ta), hb = (bool)(sb >> tb);
    if (!ha && !hb) return worst;
    if (ha != hb) return INFINITY;
    if (ta == tb) continue;
    char *ea, *eb;
    double da = strtod(ta.c_str(), &ea), db = strtod(tb.c_str(), &eb);
    if (*ea || *eb) return INFINITY;
    if (std::isnan(da) && std::isnan(db)) continue;
    double diff = std::fabs(da - db), scale = std::max(std::fabs(da), std::fabs(db));
    if (diff <= 1e-12) continue;
    worst = std::max(worst, diff / scale);
  }
}

std::string first_diff(const std::string &a, const std::string &b) {
  size_t i = 0;
  while (i < a.size() && i < b.size() && a[i] == b[i]) i++;
  size_t ls = a.rfind('\n', i);
  ls = ls == std::string::npos ? 0 : ls + 1;
  auto line = [&](const std::string &s) { size_t e = s.find('\n', ls); return s.substr(ls, (e == std::string::npos ? s.size() : e) - ls); };
  return "byte " + std::to_string(i) + ": '" + line(a).substr(0, 80) + "' vs '" + line(b).substr(0, 80) + "'";
}

struct Tool {
  using Plan = c05tool::Plan;
  static const char *name() { return c05tool::engine_name; }
  static const char *property() { return "C05"; }

  static void setup(int, char **) {
    const char *base = getenv("VERIF_SCRATCH");
    std::string b = base ? base : "/dev/shm";
    char tmpl[256];
    snprintf(tmpl, sizeof tmpl, "%s/%s_XXXXXX", b.c_str(), c05tool::engine_name);
    if (!mkdtemp(tmpl)) sim::harness_error("cannot create a scratch directory under %s", b.c_str());
    g_scratch = tmpl;
    for (const char *d : {"in", "ref", "run"}) mkdir((g_scratch + "/" + d).c_str(), 0755);
    atexit([] {
      if (chdir("/") != 0) {}
      for (const char *d : {"in", "ref", "run"}) { rm_dir_contents(g_scratch + "/" + d); rmdir((g_scratch + "/" + d).c_str()); }
      rmdir(g_scratch.c_str());
    });
    csg::TrjReaderFactory().Register<Decorated<csg::LAMMPSDumpReader>>("vdump");
    csg::TrjReaderFactory().Register<Decorated<csg::GROReader>>("vgro");
    csg::TrjReaderFactory().Register<Decorated<csg::PDBReader>>("vpdb");
    csg::TrjReaderFactory().Register<Decorated<csg::XYZReader>>("vxyz");
    // the DL_POLY reader insists on the extension .dlph: registered under the real key before RegisterPlugins() (insert semantics, first wins)
    csg::TrjReaderFactory().Register<Decorated<csg::DLPOLYTrajectoryReader>>("dlph");
  }

  static Plan generate(uint64_t seed, long index, const std::string &tier) {
    sim::Rng r;
    r.seed(seed, (uint64_t)index * 2 + 1);
    Plan p;
    p.seed = seed;
    p.index = index;
    p.N = 2 + (int)r.below(7);
    switch (r.below(5)) {
      case 0: p.F = 1 + (int)r.below(2); break;
      case 1: p.F = std::max(1, p.N - 1 - (int)r.below(2)); break;
      case 2: p.F = p.N; break;
      default: p.F = 1 + (int)r.below((uint64_t)(2 * p.N + 2)); break;
    }
    p.F = std::min(p.F, 12);
    std::vector<long> ff = {-1, -1, -1, -1, 0, 1, 2, p.F, (long)r.below((uint64_t)p.F + 1)};
    p.first_frame = r.pick(ff);
    std::vector<long> nf = {-1, -1, -1, -1, 1, 2, std::max(1, p.N - 1), p.N, p.F, p.F + 2, 1 + (long)r.below((uint64_t)p.F + 1)};
    p.nframes = r.pick(nf);
    p.case_seed = r.next() >> 1;
    p.nmol = 4 + (int)r.below(9);
    p.chain = 2 + (int)r.below(3);
    { int fmts[10] = {0, 0, 0, 0, 1, 1, 1, 2, 3, 4}; p.fmt = fmts[r.below(10)]; }  // dump, gro, pdb, xyz, DL_POLY HISTORY
    p.vol_jitter = r.chance(0.5) ? (r.chance(0.4) ? 2 : 1) : 0;
    { long strides[6] = {0, 0, 0, 5, 29, 173}; p.alloc_stride = strides[r.below(6)]; }
    if (p.alloc_stride > 0 && r.chance(0.3)) { int ss[2] = {40, 400}; p.stall_s = ss[r.below(2)]; }
    if (r.chance(0.3)) { p.nmol = 4 + (int)r.below(5); p.sparse_mask = (long)(r.next() & 0xfff); if (r.chance(0.3)) p.sparse_mask = 0xaaa; }
    c05tool::tool_generate(p, r, tier);
    if ((p.fmt == 1 || p.fmt == 3) && r.chance(0.12)) p.corrupt_frame = 1 + (int)r.below((uint64_t)p.F);  // fault: a damaged frame in the file
#if defined(SIM_SAN)
    p.corrupt_frame = 0;  // see c05_lib.cc: exceptions unwinding a coroutine confuse ASan's stack poisoning
#endif
    if (!p.lattice && r.chance(0.3)) { p.top_fmt = 1 + (int)r.below(3); if (p.top_fmt == 3 && p.fmt == 3) p.top_fmt = 1; }  // xyz has no box: not for both files
    p.pick_strategy(r);
    return p;
  }

  static js::Value to_json(const Plan &p) {
    js::Value v = js::Value::obj();
    p.base_to_json(v);
    v.set("tool", c05tool::engine_name).set("N", p.N).set("F", p.F).set("first_frame", p.first_frame).set("nframes", p.nframes)
     .set("case_seed", (long long)p.case_seed).set("nmol", p.nmol).set("chain", p.chain).set("fmt", p.fmt).set("top_fmt", p.top_fmt).set("corrupt_frame", p.corrupt_frame).set("variant", p.variant)
     .set("block", p.block).set("vol_jitter", p.vol_jitter).set("alloc_stride", p.alloc_stride).set("stall_s", p.stall_s).set("sparse_mask", p.sparse_mask).set("lattice", p.lattice).set("variant_meaning", c05tool::tool_variant_json(p));
    return v;
  }
  static Plan from_json(const js::Value &v) {
    Plan p;
    p.base_from_json(v);
    p.N = (int)v.num("N", 2); p.F = (int)v.num("F", 1); p.first_frame = (long)v.num("first_frame", -1); p.nframes = (long)v.num("nframes", -1);
    p.case_seed = (uint64_t)v.num("case_seed", 0); p.nmol = (int)v.num("nmol", 4); p.chain = (int)v.num("chain", 2); p.fmt = (int)v.num("fmt", 0); p.top_fmt = (int)v.num("top_fmt", 0); p.corrupt_frame = (int)v.num("corrupt_frame", 0);
    p.variant = (int)v.num("variant", 0); p.block = (int)v.num("block", 0); p.vol_jitter = (int)v.num("vol_jitter", 0);
    p.alloc_stride = (long)v.num("alloc_stride", 0);
    p.stall_s = (int)v.num("stall_s", 0);
    p.sparse_mask = (long)v.num("sparse_mask", 0);
    p.lattice = (int)v.num("lattice", 0);
    return p;
  }

  static std::vector<Plan> simplify(const Plan &p) {
    std::vector<Plan> out;
    if (p.N > 2) { Plan q = p; q.N = 2; out.push_back(q); q = p; q.N--; out.push_back(q); }
    if (p.F > 1) { Plan q = p; q.F = std::max(1, p.F / 2); out.push_back(q); q = p; q.F--; out.push_back(q); }
    if (p.first_frame >= 0) { Plan q = p; q.first_frame = -1; out.push_back(q); }
    if (p.nframes >= 0) { Plan q = p; q.nframes = -1; out.push_back(q); }
    if (p.block > 0) { Plan q = p; q.block = 0; out.push_back(q); }
    if (p.nmol > 4) { Plan q = p; q.nmol = 4; out.push_back(q); }
    if (p.lattice && p.nmol > 2) { Plan q = p; q.nmol = p.nmol - 1; out.push_back(q); }
    if (p.vol_jitter && !p.lattice) { Plan q = p; q.vol_jitter = 0; out.push_back(q); }
    if (p.sparse_mask) { Plan q = p; q.sparse_mask = 0; out.push_back(q); }
    if (p.stall_s > 0) { Plan q = p; q.stall_s = 0; out.push_back(q); }
    if (p.alloc_stride > 0) { Plan q = p; q.alloc_stride = 0; q.stall_s = 0; out.push_back(q); q = p; q.alloc_stride = p.alloc_stride * 4; out.push_back(q); }
    if (p.fmt && !p.lattice) { Plan q = p; q.fmt = 0; out.push_back(q); }
    if (p.top_fmt) { Plan q = p; q.top_fmt = 0; out.push_back(q); }
    if (p.corrupt_frame) { Plan q = p; q.corrupt_frame = 0; out.push_back(q); }
    for (int b = 0; b < 8; b++) if (p.variant & (1 << b)) { Plan q = p; q.variant &= ~(1 << b); out.push_back(q); }
    if (p.strat_type != sim::Strategy::RW) { Plan q = p; q.strat_type = sim::Strategy::RW; out.push_back(q); }
    return out;
  }

  static sim::Report execute(const Plan &plan, const sim::SchedSpec &spec) {
    sim::Report rep;
    Case c;
    c05tool::tool_build(plan, c);
    if (plan.corrupt_frame > 0 && (plan.fmt == 1 || plan.fmt == 3)) {
      std::string &t = c.files[c05tool::trj_file(plan)];
      // gro: "frame t= k" is followed by the count line; xyz: the count line precedes "frame k"
      std::string title = (plan.fmt == 1 ? "frame t= " : "frame ") + std::to_string(plan.corrupt_frame) + "\n";
      size_t at = t.find((plan.corrupt_frame == 1 && plan.fmt == 1 ? "" : "\n") + title);
      if (at != std::string::npos) {
        if (plan.fmt == 1) { size_t ls = t.find('\n', at + 1) + 1, le = t.find('\n', ls); t.replace(ls, le - ls, "n/a"); }
        else { size_t le = at, ls = t.rfind('\n', le - 1); ls = ls == std::string::npos ? 0 : ls + 1; t.replace(ls, le - ls, "n/a"); }
      }
    }
    rm_dir_contents(g_scratch + "/in");
    for (auto &kv : c.files) write_file(g_scratch + "/in/" + kv.first, kv.second);
    Outcome ref = run_tool(plan, c, 1, g_scratch + "/ref", sim::SchedSpec(), 20000000, true);
    const bool ref_terminated = ref.res.outcome == sim::RUN_OK && !ref.uncaught.empty() && plan.corrupt_frame > 0;
    if ((ref.res.outcome != sim::RUN_OK || !ref.uncaught.empty()) && !ref_terminated) {
      rep.cls = "reference-run-failed";
      rep.key = rep.cls;
      rep.detail = "the --nt 1 run did not finish: " + ref.res.abort_class + " " + ref.res.abort_detail + ref.res.deadlock_graph + ref.uncaught;
      return rep;
    }
    // unordered mode: are the numbers well enough conditioned to be compared at all?  The same plan is run
    // with --nt 1 on a trajectory in which every bead is displaced by one unit of the last printed digit
    // (1e-6 A relative ~1e-7, alternating sign).  If that moves an output number by the relative amount S,
    // a change of summation order (relative 1e-16 in the accumulators) moves it by about S * 1e-9; numbers
    // are compared (to 1e-9) only when S < 1e-2, i.e. when rounding can contribute at most ~1e-11.
    double sensitivity = 0;
    if (!c05tool::ordered && ref.exit_code == 0 && c05tool::numeric_rel_tol > 0 && !(c05tool::exact_lattice_plans && plan.lattice)) {
      Case c2;
      c05tool::g_perturb = true;
      c05tool::tool_build(plan, c2);
      c05tool::g_perturb = false;
      for (auto &kv : c2.files) if (kv.first.compare(0, 5, "traj.") == 0) write_file(g_scratch + "/in/" + kv.first, kv.second);
      Outcome ref2 = run_tool(plan, c2, 1, g_scratch + "/run", sim::SchedSpec(), 20000000, true);
      for (auto &kv : c.files) if (kv.first.compare(0, 5, "traj.") == 0) write_file(g_scratch + "/in/" + kv.first, kv.second);
      if (ref2.exit_code != ref.exit_code || ref2.files.size() != ref.files.size() || ref2.branch != ref.branch) sensitivity = INFINITY;
      else for (auto &kv : ref.files) {
        auto it = ref2.files.find(kv.first);
        sensitivity = std::max(sensitivity, it == ref2.files.end() ? (double)INFINITY : max_rel_diff(kv.second, it->second));
      }
    }
    const bool well_conditioned = sensitivity < c05tool::conditioning_gate && c05tool::tool_numbers_comparable(plan);
    long budget = 50 * ref.res.steps * plan.N + 2000 + (plan.alloc_stride > 0 ? 500000 : 0) + (plan.stall_s > 0 ? (long)plan.stall_s * 20 * 6 * plan.N : 0);
    Outcome o = run_tool(plan, c, plan.N, g_scratch + "/run", spec, budget, false);
    rep.absorb(o.res);
    rep.decisions = o.res.decisions;
    rep.deviations = o.res.deviations;
    rep.trace = o.res.trace;
    rep.states = o.states;
    rep.diverged = o.res.outcome == sim::RUN_DIVERGED;
    for (auto &kv : o.probes) rep.counters["probe." + kv.first] += kv.second;
    rep.counters["obs.unlock_by_non_owner"] = o.obs.unlock_by_non_owner;
    rep.counters["obs.destroy_while_locked"] = o.obs.destroy_while_locked;
    if (plan.F < plan.N) rep.counters["probe.fewer_frames_than_threads"] = 1;
    if (o.res.max_blocked >= 3) rep.counters["probe.three_tasks_blocked"] = 1;
    if (ref.exit_code != 0) rep.counters["probe.reference_exits_with_error"] = 1;
    if (ref.exit_code == 0 && !ref.files.empty()) rep.counters["probe.outputs_compared"] = 1;
    if (ref.exit_code == 0 && !ref.files.empty()) {
      static const char *fmt_names[5] = {"lammps_dump", "gro", "pdb", "xyz", "dlpoly_history"};
      rep.counters[std::string("probe.reader_") + fmt_names[plan.fmt >= 0 && plan.fmt < 5 ? plan.fmt : 0]] = 1;
      for (auto &a : c.args) if (a.find("/conf.") != std::string::npos) rep.counters["probe.topology_from_" + a.substr(a.rfind('.') + 1)] = 1;
    }
    if (plan.block > 0 && ref.files.size() > 2) rep.counters["probe.block_files_written"] = 1;
    for (auto &kv : ref.files) if (kv.first.compare(0, 5, "A-A-A") == 0) rep.counters["probe.threebody_distribution_compared"] = 1;
    rep.counters["check.output_files_compared"] = (long)ref.files.size();

    js::Value hist = js::Value::obj();
    js::Value fl = js::Value::arr();
    for (auto &kv : o.files) fl.push(kv.first + ":" + std::to_string(kv.second.size()));
    js::Value al = js::Value::arr();
    for (size_t i = 0; i < c.args.size(); i++) al.push(c.args[i]);
    hist.set("args", al).set("exit_code", o.exit_code).set("reference_exit_code", ref.exit_code).set("output_files", fl).set("stderr", o.err.substr(0, 300));
    rep.history = hist;

    const std::string mode = c05tool::ordered ? "ordered" : "unordered";
    auto fail = [&](const std::string &cls, const std::string &key, const std::string &detail) {
      if (rep.cls.empty()) { rep.cls = cls; rep.key = key; rep.detail = detail; }
    };
    switch (o.res.outcome) {
      case sim::RUN_DIVERGED: return rep;
      case sim::RUN_DEADLOCK: fail("deadlock", "deadlock:" + mode, o.res.deadlock_graph); return rep;
      case sim::RUN_BUDGET: fail("livelock", "livelock:" + mode, "step budget exhausted"); return rep;
      case sim::RUN_ABORTED: fail(o.res.abort_class, o.res.abort_class + ":" + mode, o.res.abort_detail); return rep;
      default: break;
    }
    if (ref_terminated) {
      // the damaged frame makes the reader throw inside the worker thread of the --nt 1 run (std::terminate): every thread count must end the same way
      if (o.uncaught.empty()) fail("outcome-differs", "outcome-differs:" + mode, "the --nt 1 run is terminated by an uncaught exception (" + ref.uncaught + "), this run ended with exit code " + std::to_string(o.exit_code));
      else rep.counters["probe.terminated_like_the_reference"] = 1;
      return rep;
    }
    if (!o.uncaught.empty()) { fail("terminate", "terminate:" + mode, "uncaught exception in a worker thread: " + o.uncaught); return rep; }
    if (o.exit_code != ref.exit_code || o.err != ref.err) {
      fail("outcome-differs", "outcome-differs:" + mode, "exit code " + std::to_string(o.exit_code) + " / '" + o.err.substr(0, 200) + "' vs --nt 1: " +
                                                           std::to_string(ref.exit_code) + " / '" + ref.err.substr(0, 200) + "'");
      return rep;
    }
    // an injected damaged frame that the tool turns into an orderly error exit: how far the other workers got is not the property's business
    if (ref.exit_code != 0 && plan.corrupt_frame > 0) { rep.counters["probe.error_exit_like_the_reference"] = 1; return rep; }
    if (o.marked != ref.marked) {
      std::string why;
      if (!numerically_equal(o.marked, ref.marked, why, 2e-5)) {
        fail("stdout-differs", "stdout-differs:" + mode, "reported numbers differ from the --nt 1 run: " + why + " in '" + o.marked.substr(0, 200) + "'");
        return rep;
      }
    }
    if (c05tool::stdout_marker && !ref.marked.empty()) rep.counters["check.stdout_numbers_compared"] = 1;
    for (auto &kv : ref.files)
      if (!o.files.count(kv.first)) { fail("output-missing", "output-missing:" + mode, "file " + kv.first + " is written with --nt 1 but not with --nt " + std::to_string(plan.N)); return rep; }
    for (auto &kv : o.files)
      if (!ref.files.count(kv.first)) { fail("output-extra", "output-extra:" + mode, "file " + kv.first + " is written with --nt " + std::to_string(plan.N) + " but not with --nt 1"); return rep; }
    for (auto &kv : ref.files) {
      const std::string &a = o.files[kv.first];
      if (a == kv.second) continue;
      if (c05tool::ordered || (c05tool::exact_lattice_plans && plan.lattice)) {
        fail("output-differs", "output-differs:" + mode, "file " + kv.first + " is not byte-identical to the --nt 1 run: " + first_diff(a, kv.second));
        return rep;
      }
      if (c05tool::numeric_rel_tol <= 0) { rep.counters["probe.numbers_not_compared"] = 1; continue; }
      // a numerical branch decided by rounding (e.g. the positive-definiteness test of csg_reupdate) makes the output discontinuous
      if (!well_conditioned || o.branch != ref.branch) { rep.counters["probe.ill_conditioned_numbers_not_compared"] = 1; continue; }
      std::string why;
      if (!numerically_equal(a, kv.second, why, c05tool::numeric_rel_tol)) {
        fail("output-differs", "output-differs:" + mode, "file " + kv.first + " differs from the --nt 1 run beyond rounding: " + why);
        return rep;
      }
      rep.counters["probe.unordered_rounding_difference"] = 1;
      rep.counters["check.files_compared_numerically"]++;
    }
    return rep;
  }
};

}  // namespace

// ---- helpers for the generators ----------------------------------------------
namespace c05tool {

bool g_perturb = false;

long selected_frames(const Plan &p) {
  long a = p.first_frame > 1 ? p.first_frame : 1;
  long b = p.nframes < 0 ? p.F : std::min<long>(p.F, a + p.nframes - 1);
  return std::max(0L, b - a + 1);
}

std::string fmt_double(double v) {
  char b[40];
  snprintf(b, sizeof b, "%.6f", v);
  return b;
}

const char *trj_file(const Plan &p) {
  static const char *names[5] = {"traj.vdump", "traj.vgro", "traj.vpdb", "traj.vxyz", "traj.dlph"};
  return names[p.fmt >= 0 && p.fmt < 5 ? p.fmt : 0];
}

std::string add_topology(const Plan &p, Case &c, bool two_types, double box, bool need_xml) {
  int tf = need_xml ? 0 : p.top_fmt;
  if (tf == 0) { c.files["topol.xml"] = gen_topology_xml(p, two_types, box); return "topol.xml"; }
  static const char *names[4] = {"topol.xml", "conf.gro", "conf.pdb", "conf.xyz"};
  Plan q = p;  // the first frame of the trajectory in the topology's format
  q.F = 1;
  q.fmt = tf;
  bool saved = g_perturb;
  g_perturb = false;
  c.files[names[tf]] = gen_trajectory(q, box, p.nmol * p.chain);
  g_perturb = saved;
  if (tf == 2 && p.chain >= 2) {
    // PDB topologies carry the chain bonds as CONECT records (both directions, as PDB files do): the reader builds molecules,
    // bonds and exclusions from them - state that must not leak from one ReadTopology call (worker) to the next
    std::string conect;
    char line[64];
    for (int m = 0; m < p.nmol; m++)
      for (int b = 0; b < p.chain; b++) {
        int a = m * p.chain + b + 1;
        std::string l = "CONECT";
        snprintf(line, sizeof line, "%5d", a); l += line;
        if (b > 0) { snprintf(line, sizeof line, "%5d", a - 1); l += line; }
        if (b + 1 < p.chain) { snprintf(line, sizeof line, "%5d", a + 1); l += line; }
        conect += l + "\n";
      }
    std::string &t = c.files[names[tf]];
    size_t e = t.rfind("ENDMDL\n");
    if (e != std::string::npos) t.insert(e, conect);
  }
  return names[tf];
}

std::string gen_topology_xml(const Plan &p, bool two_types, double box) {
  std::ostringstream o;
  o << "<topology>\n";
  // xyz files carry no box: it comes from the topology (and is then the same for all frames)
  if (p.fmt == 3 && box > 0) o << " <box xx=\"" << fmt_double(box) << "\" yy=\"" << fmt_double(box) << "\" zz=\"" << fmt_double(box) << "\"/>\n";
  o << " <molecules>\n  <molecule name=\"MOL\" nmols=\"" << p.nmol << "\" nbeads=\"" << p.chain << "\">\n";
  for (int b = 0; b < p.chain; b++) {
    const char *type = (two_types && (b % 2)) ? "B" : "A";
    o << "   <bead name=\"" << type << b + 1 << "\" type=\"" << type << "\" mass=\"" << (b % 2 ? 2.0 : 1.0) << "\" q=\"0\"/>\n";
  }
  o << "  </molecule>\n </molecules>\n</topology>\n";
  return o.str();
}

// random chain molecules in an orthorhombic box (nm); bonds of ~0.15 nm; coordinates may lie outside the primary cell
std::string gen_trajectory(const Plan &p, double box, int) {
  sim::Rng r;
  r.seed(p.case_seed, 0x7a);
  std::ostringstream o;
  int n = p.nmol * p.chain;
  double held = 1.0;
  for (int f = 0; f < p.F; f++) {
    // vol_jitter 1: a different box in every frame; 2: piecewise constant (the box changes every second or third frame,
    // so that consecutive frames often, but not always, have the same box)
    double jitter = 1.0 + 0.05 * (r.unit() - 0.5);
    if (f == 0 || p.vol_jitter != 2 || (f % (2 + (int)(p.case_seed % 2))) == 0) held = jitter;
    double L = box * (p.vol_jitter ? held : 1.0);
    std::vector<double> x((size_t)n * 3);
    bool sparse = (p.sparse_mask >> f) & 1;
    if (p.lattice) {
      // distinct random sites on four parallel lines (1.0 nm apart) of eight sites with spacing 0.25 nm in a 2.0 nm box:
      // the only pair distances inside a cut-off of 0.6 nm are exactly 0.25 and 0.5 (also across the periodic boundary),
      // all coordinates and distances are exact binary fractions
      L = 2.0;
      std::vector<int> sites(32);
      for (int i = 0; i < 32; i++) sites[(size_t)i] = i;
      for (int i = 0; i < n && i < 32; i++) std::swap(sites[(size_t)i], sites[(size_t)i + (size_t)r.below((uint64_t)(32 - i))]);
      for (int i = 0; i < n; i++) {
        int sidx = sites[(size_t)(i % 32)];
        int line = sidx / 8;
        x[(size_t)i * 3] = 0.25 * (sidx % 8); x[(size_t)i * 3 + 1] = 1.0 * (line % 2); x[(size_t)i * 3 + 2] = 1.0 * (line / 2);
      }
    } else
    for (int m = 0; m < p.nmol; m++) {
      double c[3] = {r.unit() * L, r.unit() * L, r.unit() * L};
      if (sparse) {  // lattice with spacing 0.8 nm (2 x 2 x 3 sites): no pair of different molecules within 0.7 nm
        c[0] = 0.05 + 0.8 * (m % 2); c[1] = 0.05 + 0.8 * ((m / 2) % 2); c[2] = 0.05 + 0.5 * (m / 4);
        if (m >= 4) c[2] = 0.05 + 0.8 * (m / 4);
      }
      for (int b = 0; b < p.chain; b++) {
        for (int k = 0; k < 3; k++) {
          c[k] += (b == 0 ? 0.0 : (sparse ? 0.02 : 0.18) * (r.unit() - 0.5));
          x[(size_t)(m * p.chain + b) * 3 + (size_t)k] = c[k];
        }
      }
    }
    if (g_perturb && !p.lattice) {  // non-rigid displacement by one unit of the last printed digit
      double delta = p.fmt == 1 ? 1e-3 : p.fmt == 2 ? 1e-4 : 1e-7;  // nm
      for (int i = 0; i < n; i++) x[(size_t)i * 3 + (size_t)(i % 3)] += (i % 2 ? delta : -delta);
    }
    char line[200];
    if (p.fmt == 3) L = box;  // no box in the file
    if (p.fmt == 2) {  // PDB: one MODEL per frame, fixed columns, Angstrom, 80 characters per ATOM record
      snprintf(line, sizeof line, "CRYST1%9.3f%9.3f%9.3f%7.2f%7.2f%7.2f P 1           1\n", L * 10, L * 10, L * 10, 90.0, 90.0, 90.0);
      o << "MODEL     " << f + 1 << "\n" << line;
      for (int i = 0; i < n; i++) {
        snprintf(line, sizeof line, "ATOM  %5d %-4s %3s  %4d    %8.3f%8.3f%8.3f%6.2f%6.2f          %2s%2s\n", i + 1, ((i % p.chain) % 2) ? "B" : "A", "MOL", i / p.chain + 1,
                 x[(size_t)i * 3] * 10, x[(size_t)i * 3 + 1] * 10, x[(size_t)i * 3 + 2] * 10, 1.0, 0.0, "C", "");
        o << line;
      }
      o << "ENDMDL\n";
    } else if (p.fmt == 3) {  // xyz: Angstrom, no box, no step
      o << n << "\nframe " << f + 1 << "\n";
      for (int i = 0; i < n; i++) {
        snprintf(line, sizeof line, "%s %.6f %.6f %.6f\n", ((i % p.chain) % 2) ? "B" : "A", x[(size_t)i * 3] * 10, x[(size_t)i * 3 + 1] * 10, x[(size_t)i * 3 + 2] * 10);
        o << line;
      }
    } else if (p.fmt == 4) {  // DL_POLY HISTORY: keytrj 2 (velocities and forces), imcon 2 (orthorhombic), Angstrom
      if (f == 0) o << "generated trajectory\n" << "2 2 " << n << " " << p.F << " " << p.F * (4 + 4 * n) + 2 << "\n";
      snprintf(line, sizeof line, "timestep %d %d 2 2 0.001000 %.6f\n", (f + 1) * 10, n, (f + 1) * 10 * 0.001);
      o << line;
      for (int k = 0; k < 3; k++) { snprintf(line, sizeof line, "%.6f %.6f %.6f\n", k == 0 ? L * 10 : 0.0, k == 1 ? L * 10 : 0.0, k == 2 ? L * 10 : 0.0); o << line; }
      for (int i = 0; i < n; i++) {
        snprintf(line, sizeof line, "%s %d %.4f %.4f\n%.6f %.6f %.6f\n%.4f %.4f %.4f\n%.4f %.4f %.4f\n", ((i % p.chain) % 2) ? "B" : "A", i + 1, (i % p.chain) % 2 ? 2.0 : 1.0, 0.0,
                 x[(size_t)i * 3] * 10, x[(size_t)i * 3 + 1] * 10, x[(size_t)i * 3 + 2] * 10, 0.0, 0.0, 0.0, 20.0 * (r.unit() - 0.5), 20.0 * (r.unit() - 0.5), 20.0 * (r.unit() - 0.5));
        o << line;
      }
    } else if (p.fmt == 0) {
      o << "ITEM: TIMESTEP\n" << (f + 1) * 10 << "\nITEM: NUMBER OF ATOMS\n" << n << "\nITEM: BOX BOUNDS pp pp pp\n";
      for (int k = 0; k < 3; k++) { snprintf(line, sizeof line, "0 %.6f\n", L * 10.0); o << line; }
      o << "ITEM: ATOMS id type x y z fx fy fz\n";
      for (int i = 0; i < n; i++) {
        snprintf(line, sizeof line, "%d %d %.6f %.6f %.6f %.4f %.4f %.4f\n", i + 1, (i % p.chain) % 2, x[(size_t)i * 3] * 10, x[(size_t)i * 3 + 1] * 10,
                 x[(size_t)i * 3 + 2] * 10, 20.0 * (r.unit() - 0.5), 20.0 * (r.unit() - 0.5), 20.0 * (r.unit() - 0.5));
        o << line;
      }
    } else {
      o << "frame t= " << f + 1 << "\n" << n << "\n";
      for (int i = 0; i < n; i++) {
        auto wrap = [&](double v) { double w = std::fmod(v, L); if (w < 0) w += L; return w; };
        snprintf(line, sizeof line, "%5d%-5s%5s%5d%8.3f%8.3f%8.3f%8.4f%8.4f%8.4f\n", i / p.chain + 1, "MOL", ((i % p.chain) % 2) ? "B" : "A", i + 1,
                 wrap(x[(size_t)i * 3]), wrap(x[(size_t)i * 3 + 1]), wrap(x[(size_t)i * 3 + 2]), 0.0, 0.0, 0.0);
        o << line;
      }
      snprintf(line, sizeof line, "%10.5f%10.5f%10.5f\n", L, L, L);
      o << line;
    }
  }
  return o.str();
}

}  // namespace c05tool

int main(int argc, char **argv) { return sim::Driver<Tool>::main(argc, argv); }
