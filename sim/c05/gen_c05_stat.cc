// Input generator for engine c05_stat: the real csg_stat (csg_stat.cc +
// csg_stat_imc.cc), ordered mode.
#include "c05/c05_tool.h"

#include <sstream>

namespace c05tool {

const char *engine_name = "c05_stat";
const bool ordered = true;
const char *stdout_marker = nullptr;
const char *stdout_branch_marker = nullptr;
const double numeric_rel_tol = 0;
const bool exact_lattice_plans = false;
const double conditioning_gate = 1e-2;

enum { V_IMC = 1, V_MAP = 2, V_TWO = 4, V_GRID_SIMPLE = 8, V_BONDED = 16, V_FORCE = 32, V_MAP2 = 64, V_3BODY = 128 };

void tool_generate(Plan &p, sim::Rng &r, const std::string &) {
  p.variant = 0;
  if (r.chance(0.35)) p.variant |= V_IMC;
  if (r.chance(0.3)) p.variant |= V_MAP;
  if (r.chance(0.4)) p.variant |= V_TWO;
  if (r.chance(0.2)) p.variant |= V_GRID_SIMPLE;
  if (r.chance(0.4)) p.variant |= V_BONDED;
  if (r.chance(0.25)) p.variant |= V_FORCE;
  if (r.chance(0.5)) p.variant |= V_MAP2;
  if (r.chance(0.25)) p.variant |= V_3BODY;
  p.block = r.chance(0.35) ? 1 + (int)r.below(3) : 0;
}

js::Value tool_variant_json(const Plan &p) {
  js::Value v = js::Value::obj();
  v.set("do_imc", (p.variant & V_IMC) != 0).set("mapping", (p.variant & V_MAP) != 0).set("two_types", (p.variant & V_TWO) != 0)
   .set("nbsearch_simple", (p.variant & V_GRID_SIMPLE) != 0).set("bonded", (p.variant & V_BONDED) != 0).set("mean_force", (p.variant & V_FORCE) != 0).set("two_cg_beads_with_cg_bond", (p.variant & V_MAP2) != 0).set("threebody_interaction", (p.variant & V_3BODY) != 0).set("block_length", p.block);
  return v;
}

static std::string interaction(const std::string &name, const char *t1, const char *t2, double max, double step, bool imc, const char *group, bool force = false) {
  std::ostringstream o;
  o << " <non-bonded>\n  <name>" << name << "</name>\n  <type1>" << t1 << "</type1>\n  <type2>" << t2 << "</type2>\n  <min>0.0</min>\n  <max>" << max
    << "</max>\n  <step>" << step << "</step>\n";
  if (force) o << "  <force>1</force>\n";
  if (imc) o << "  <inverse><imc><group>" << group << "</group></imc></inverse>\n";
  o << " </non-bonded>\n";
  return o.str();
}

static std::string target(double max, double step) {
  std::ostringstream o;
  int n = (int)((max - 0.0) / step + 1.000000001);
  for (int i = 0; i < n; i++) o << fmt_double(i * step) << " " << (i == 0 ? 0.0 : 1.0) << " i\n";
  return o.str();
}

void tool_build(const Plan &p, Case &c) {
  bool imc = p.variant & V_IMC, map = p.variant & V_MAP, two = (p.variant & V_TWO) && !map && p.chain >= 2;
  double box = 1.7 + 0.1 * (double)(p.case_seed % 6);
  double max = 0.6, step = 0.05;
  // bonded: the topology carries a <bonded> section (bonds, and angles for chains of >= 3 beads), which also
  // creates exclusions for the non-bonded search; without mapping the bonded distributions are evaluated too
  bool bonded = (p.variant & V_BONDED) != 0;
  const bool need_xml = map || bonded;  // mapping files and <bonded> sections refer to the XML topology's names
  std::string top = gen_topology_xml(p, two, box);
  if (bonded) {
    auto bname = [&](int b) { return std::string("MOL:") + ((two && (b % 2)) ? "B" : "A") + std::to_string(b + 1); };
    std::ostringstream b;
    b << " <bonded>\n  <bond>\n   <name>bond1</name>\n   <beads>\n";
    for (int k = 0; k + 1 < p.chain; k++) b << "    " << bname(k) << " " << bname(k + 1) << "\n";
    b << "   </beads>\n  </bond>\n";
    if (p.chain >= 3) {
      b << "  <angle>\n   <name>angle1</name>\n   <beads>\n";
      for (int k = 0; k + 2 < p.chain; k++) b << "    " << bname(k) << " " << bname(k + 1) << " " << bname(k + 2) << "\n";
      b << "   </beads>\n  </angle>\n";
    }
    b << " </bonded>\n";
    top.insert(top.rfind("</topology>"), b.str());
  }
  std::string topfile = "topol.xml";
  if (need_xml || p.top_fmt == 0) c.files["topol.xml"] = top; else topfile = add_topology(p, c, two, box);
  std::string trj = trj_file(p);
  c.files[trj] = gen_trajectory(p, box, p.nmol * p.chain);
  std::ostringstream opt;
  opt << "<cg>\n";
  if (p.variant & V_GRID_SIMPLE) opt << " <nbsearch>simple</nbsearch>\n";
  // mean force needs forces in the trajectory: LAMMPS dump and DL_POLY HISTORY
  opt << interaction("A-A", "A", "A", max, step, imc, "g1", (p.variant & V_FORCE) && (p.fmt == 0 || p.fmt == 4));
  if (two) opt << interaction("A-B", "A", "B", 0.5, 0.1, imc, (p.case_seed & 64) ? "g1" : "g2");
  if (p.variant & V_3BODY) {  // angular three-body distributions (csg_stat's "preliminary" 3-body path, its own neighbour search per worker)
    auto three = [&](const char *name, const char *t1, double cut) {
      opt << " <non-bonded>\n  <name>" << name << "</name>\n  <type1>" << t1 << "</type1>\n  <type2>A</type2>\n  <type3>A</type3>\n  <threebody>1</threebody>\n"
          << "  <min>0.0</min>\n  <max>3.1</max>\n  <step>0.1</step>\n  <cut>" << cut << "</cut>\n";
      if (imc) opt << "  <inverse><imc><group>none</group></imc></inverse>\n";
      opt << " </non-bonded>\n";
    };
    three("A-A-A", "A", 0.45);
    if (two) three("B-A-A", "B", 0.4);
  }
  if (bonded && !map) {
    opt << " <bonded>\n  <name>bond1</name>\n  <min>0.0</min>\n  <max>0.3</max>\n  <step>0.01</step>\n";
    if (imc) opt << "  <inverse><imc><group>none</group></imc></inverse>\n";
    opt << " </bonded>\n";
    if (p.chain >= 3) {
      opt << " <bonded>\n  <name>angle1</name>\n  <min>0.0</min>\n  <max>3.15</max>\n  <step>0.05</step>\n";
      if (imc) opt << "  <inverse><imc><group>none</group></imc></inverse>\n";
      opt << " </bonded>\n";
    }
  }
  opt << "</cg>\n";
  c.files["settings.xml"] = opt.str();
  if (imc) {
    c.cwd_files["A-A.dist.tgt"] = target(max, step);
    if (two) c.cwd_files["A-B.dist.tgt"] = target(0.5, 0.1);
  }
  c.args = {"--top", "{IN}/" + topfile, "--trj", "{IN}/" + trj, "--options", "{IN}/settings.xml"};
  if (map) {
    bool map2 = (p.variant & V_MAP2) && p.chain >= 2;
    std::ostringstream m;
    m << "<cg_molecule>\n <name>MOL</name>\n <ident>MOL</ident>\n <topology>\n  <cg_beads>\n";
    int split = map2 ? (p.chain + 1) / 2 : p.chain;
    auto bead = [&](const char *name, const char *mapname, int from, int to) {
      m << "   <cg_bead>\n    <name>" << name << "</name>\n    <type>A</type>\n    <mapping>" << mapname << "</mapping>\n    <beads>";
      for (int b = from; b < to; b++) m << " 1:MOL:A" << b + 1;
      m << " </beads>\n   </cg_bead>\n";
    };
    bead("b1", "M1", 0, split);
    if (map2) bead("b2", "M2", split, p.chain);
    m << "  </cg_beads>\n";
    if (map2) m << "  <cg_bonded>\n   <bond>\n    <name>cgbond</name>\n    <beads> b1 b2 </beads>\n   </bond>\n  </cg_bonded>\n";
    m << " </topology>\n <maps>\n  <map>\n   <name>M1</name>\n   <weights>";
    for (int b = 0; b < split; b++) m << " " << (b + 1);
    m << " </weights>\n  </map>\n";
    if (map2) {
      m << "  <map>\n   <name>M2</name>\n   <weights>";
      for (int b = split; b < p.chain; b++) m << " " << (b + 1);
      m << " </weights>\n  </map>\n";
    }
    m << " </maps>\n</cg_molecule>\n";
    c.files["mapping.xml"] = m.str();
    c.args.push_back("--cg");
    c.args.push_back("{IN}/mapping.xml");
    if (map2) {  // the bonded distribution of the coarse-grained bond
      std::string st = c.files["settings.xml"];
      std::string b = " <bonded>\n  <name>cgbond</name>\n  <min>0.0</min>\n  <max>0.6</max>\n  <step>0.02</step>\n";
      if (imc) b += "  <inverse><imc><group>none</group></imc></inverse>\n";
      b += " </bonded>\n";
      st.insert(st.rfind("</cg>"), b);
      c.files["settings.xml"] = st;
    }
  }
  if (imc) c.args.push_back("--do-imc");
  if (p.block > 0) { c.args.push_back("--block-length"); c.args.push_back(std::to_string(p.block)); }
}

bool tool_numbers_comparable(const Plan &) { return true; }

}  // namespace c05tool
