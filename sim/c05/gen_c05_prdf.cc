// Input generator for engine c05_prdf: csgapps/partial_rdf (ordered mode).
#include "c05/c05_tool.h"

#include <sstream>

namespace c05tool {

const char *engine_name = "c05_prdf";
const bool ordered = true;
const char *stdout_marker = nullptr;
const char *stdout_branch_marker = nullptr;
const double numeric_rel_tol = 0;
const bool exact_lattice_plans = false;
const double conditioning_gate = 1e-2;

enum { V_TWO = 1, V_VOLCORR = 2, V_BLOCKS = 4 };

void tool_generate(Plan &p, sim::Rng &r, const std::string &) {
  p.variant = 0;
  if (r.chance(0.4)) p.variant |= V_TWO;
  if (r.chance(0.4)) p.variant |= V_VOLCORR;
  if (r.chance(0.3)) p.variant |= V_BLOCKS;
  p.block = r.chance(0.4) ? 1 + (int)r.below(3) : 0;  // --write-every
}

js::Value tool_variant_json(const Plan &p) {
  js::Value v = js::Value::obj();
  v.set("two_types", (p.variant & V_TWO) != 0).set("do_vol_corr", (p.variant & V_VOLCORR) != 0).set("do_blocks", (p.variant & V_BLOCKS) != 0).set("write_every", p.block);
  return v;
}

void tool_build(const Plan &p, Case &c) {
  bool two = (p.variant & V_TWO) && p.chain >= 2;
  double box = 1.7 + 0.1 * (double)(p.case_seed % 6);
  std::string topfile = add_topology(p, c, two, box);
  std::string trj = trj_file(p);
  c.files[trj] = gen_trajectory(p, box, p.nmol * p.chain);
  std::ostringstream o;
  o << "<cg>\n <non-bonded>\n  <name>A-A</name>\n  <type1>A</type1>\n  <type2>A</type2>\n  <min>0.0</min>\n  <max>0.5</max>\n  <step>0.05</step>\n </non-bonded>\n";
  if (two) o << " <non-bonded>\n  <name>A-B</name>\n  <type1>A</type1>\n  <type2>B</type2>\n  <min>0.0</min>\n  <max>0.4</max>\n  <step>0.1</step>\n </non-bonded>\n";
  o << "</cg>\n";
  c.files["settings.xml"] = o.str();
  c.args = {"--top", "{IN}/" + topfile, "--trj", "{IN}/" + trj, "--options", "{IN}/settings.xml", "--subvolume_radius", "0.75"};
  if (p.variant & V_VOLCORR) c.args.push_back("--do-vol-corr");
  if (p.variant & V_BLOCKS) c.args.push_back("--do-blocks");
  if (p.block > 0) { c.args.push_back("--write-every"); c.args.push_back(std::to_string(p.block)); }
}

bool tool_numbers_comparable(const Plan &) { return true; }

}  // namespace c05tool
