// Engine c05_lib: the real CsgApplication::Run / ProcessData / Worker::Run with
// the real tools::Thread and tools::Mutex, driven through the real
// Application::Exec by a harness application whose reader, evaluation and merge
// are fully observable.  DESIGN.md section 3.1.
#include "c05/c05_common.h"
#include "core/engine.h"

#include <votca/csg/csgapplication.h>
#include <votca/csg/topologyreader.h>
#include <votca/csg/trajectoryreader.h>

#include <algorithm>
#include <memory>

using namespace votca;
using namespace c05;

namespace {

struct Plan : sim::PlanBase {
  int N = 2;            // --nt
  int F = 4;            // frames in the synthetic trajectory
  long first_frame = -1;  // -1: option not given
  long nframes = -1;      // -1: option not given
  double begin = -1;      // < 0: option not given; frames carry time = frame number
  bool ordered = true;    // SynchronizeThreads()
  uint64_t eval_seed = 0; // decides how many decision points an evaluation contains
  int eval_max = 2;
  long slow_frame = -1;   // >= 1: evaluating this frame takes slow_s simulated seconds (a stalled worker)
  int slow_s = 0;
  long bad_frame = -1;    // >= 1: the trajectory reader throws when it is asked for this frame (a malformed frame in the file)
  long bad_eval = -1;     // >= 1: the evaluation of this frame throws (a per-frame analysis error)
};

struct History {
  std::vector<std::pair<int, long>> evals;  // (worker, frame)
  std::vector<long> merged;                 // frames in merge order
  int merge_calls = 0;
  int exit_code = 0;
  std::string err;
  sim::Result res;
  sim::MutexObs obs;
  std::map<std::string, long> probes;
  std::vector<uint64_t> states;
  std::string uncaught;
  bool ended = false;
};

// --- state shared between the synthetic plugins and the harness application ---
struct Shared {
  const Plan *plan = nullptr;
  History *hist = nullptr;
  long next_frame = 0;                       // position of the synthetic reader
  std::map<const csg::Topology *, bool> fresh;  // topology holds a frame that was not evaluated yet
  std::vector<uint64_t> *states = nullptr;
  long evals_in_flight = 0;
} S;

class SimTopReader : public csg::TopologyReader {
 public:
  bool ReadTopology(std::string, csg::Topology &top) override {
    top.Cleanup();
    top.setStep(-1);
    S.fresh[&top] = false;
    return true;
  }
};

class SimTrjReader : public csg::TrajectoryReader {
 public:
  bool Open(const std::string &) override { S.next_frame = 0; return true; }
  void Close() override {}
  bool FirstFrame(csg::Topology &top) override { return NextFrame(top); }
  bool NextFrame(csg::Topology &top) override {
    Monitors &m = mon();
    if (sim::self() != 0 && m.first_reader_task == -2) {
      m.first_reader_task = sim::self();
      bool w0_done = false;
      for (auto &e : S.hist->evals) if (e.first == 0) w0_done = true;
      if (!w0_done && !S.plan->ordered && sim::self() > 1) m.probes["worker_not0_read_first"] = 1;
    }
    sim::set_phase(PH_READING);
    m.reader.enter(U_READER_IN);
    bool ok = S.next_frame < S.plan->F;
    long f = -1;
    if (ok && S.plan->bad_frame == S.next_frame + 1) {  // injected fault: the file is damaged here
      m.probes["reader_threw"]++;
      m.reader.leave(U_READER_OUT);
      sim::set_phase(PH_IDLE);
      throw std::runtime_error("malformed frame " + std::to_string(S.next_frame + 1) + " in the trajectory");
    }
    if (ok) {
      f = ++S.next_frame;  // frames are numbered 1..F in file order
      top.setStep(f);
      top.setTime((double)f);
      S.fresh[&top] = true;
      m.delivered.push_back(f);
      sim::event(U_FRAME, f, 0);
    } else {
      m.probes["eof_seen"]++;
    }
    m.reader.leave(U_READER_OUT);
    sim::set_phase(PH_IDLE);
    return ok;
  }
};

class HApp;
class HWorker : public csg::CsgApplication::Worker {
 public:
  std::vector<long> pending;  // evaluated, not yet merged
  void EvalConfiguration(csg::Topology *top, csg::Topology *) override;
};

class HApp : public csg::CsgApplication {
 public:
  std::string ProgramName() override { return "c05_lib"; }
  void HelpText(std::ostream &) override {}
  bool DoTrajectory() override { return true; }
  bool DoThreaded() override { return true; }
  bool SynchronizeThreads() override { return S.plan->ordered; }
  void BeginEvaluate(csg::Topology *, csg::Topology *) override {
    Monitors &m = mon();
    if (m.begun) sim::abort_run("begin-twice", "BeginEvaluate called twice");
    if (!S.hist->evals.empty()) sim::abort_run("eval-outside", "an evaluation happened before BeginEvaluate");
    m.begun = true;
    sim::event(U_BEGIN);
  }
  void EndEvaluate() override {
    Monitors &m = mon();
    if (S.evals_in_flight != 0) sim::abort_run("eval-outside", "EndEvaluate while an evaluation is in progress");
    if (m.merge.inside != -1) sim::abort_run("merge-overlap", "EndEvaluate while a merge is in progress");
    m.ended = true;
    sim::event(U_END);
  }
  std::unique_ptr<Worker> ForkWorker() override {
    return std::make_unique<HWorker>();
  }
  void MergeWorker(Worker *w) override {
    Monitors &m = mon();
    HWorker *hw = static_cast<HWorker *>(w);
    if (!m.begun || m.ended) sim::abort_run("merge-outside", "MergeWorker outside BeginEvaluate..EndEvaluate");
    sim::set_phase(PH_MERGING);
    m.merge.enter(U_MERGE);
    S.hist->merge_calls++;
    for (long f : hw->pending) {
      S.hist->merged.push_back(f);
      sim::event(U_MERGED, f, hw->getId());
    }
    hw->pending.clear();
    m.merge.leave(U_MERGE);
    sim::set_phase(PH_IDLE);
  }
};

void HWorker::EvalConfiguration(csg::Topology *top, csg::Topology *) {
  Monitors &m = mon();
  long f = top->getStep();
  int id = (int)getId();
  if (!m.begun || m.ended) sim::abort_run("eval-outside", "EvalConfiguration outside BeginEvaluate..EndEvaluate");
  if (top != &top_) sim::abort_run("foreign-topology", "worker " + std::to_string(id) + " was handed a topology that is not its own");
  auto it = S.fresh.find(top);
  if (it == S.fresh.end() || !it->second) {
    sim::abort_run("stale-eval", "worker " + std::to_string(id) + " evaluates frame " + std::to_string(f) +
                                     " which was " + (f < 0 ? std::string("never read") : std::string("already evaluated")));
  }
  it->second = false;
  S.hist->evals.emplace_back(id, f);
  sim::event(U_EVALFRAME, f, id);
  sim::set_phase(PH_EVAL);
  S.evals_in_flight++;
  // plan-chosen number of decision points inside the evaluation (its "duration")
  uint64_t h = sim::hmix(sim::hmix(S.plan->eval_seed, (uint64_t)f), (uint64_t)id);
  int pts = S.plan->eval_max > 0 ? (int)(h % (uint64_t)(S.plan->eval_max + 1)) : 0;
  for (int k = 0; k < pts; k++) sim::point(U_EVAL, f);
  if (S.plan->slow_frame == f && S.plan->slow_s > 0) { m.probes["slow_evaluation"]++; sim::sleep_ns((long long)S.plan->slow_s * 1000000000LL); }
  // reach probes
  if (!m.delivered.empty() && m.delivered.back() > f) m.probes["later_frame_read_during_eval"]++;
  S.evals_in_flight--;
  if (S.plan->bad_eval == f) { m.probes["evaluation_threw"]++; sim::set_phase(PH_IDLE); throw std::runtime_error("analysis failed for frame " + std::to_string(f)); }
  pending.push_back(f);
  sim::set_phase(PH_IDLE);
}

History run_once(const Plan &plan, int N, const sim::SchedSpec &spec, long budget, bool reference) {
  History h;
  S.plan = &plan;
  S.hist = &h;
  S.fresh.clear();
  S.next_frame = 0;
  S.evals_in_flight = 0;
  mon().reset();
  sim::pthread_layer_reset();
  sim::Config cfg;
  if (reference) { cfg.strat.type = sim::Strategy::DEFAULT; cfg.sched_seed = 1; }
  else spec.apply(cfg, plan);
  cfg.budget = budget;
  cfg.pct_span = 12 * N + 8 * std::min(plan.F, 30) + 10;
  std::vector<std::string> args = {"c05_lib", "--top", "x.simtop", "--trj", "x.simtrj", "--nt", std::to_string(N)};
  if (plan.first_frame >= 0) { args.push_back("--first-frame"); args.push_back(std::to_string(plan.first_frame)); }
  if (plan.nframes >= 0) { args.push_back("--nframes"); args.push_back(std::to_string(plan.nframes)); }
  if (plan.begin >= 0) { args.push_back("--begin"); args.push_back(std::to_string(plan.begin)); }
  std::vector<char *> argv;
  for (auto &a : args) argv.push_back(const_cast<char *>(a.c_str()));
  std::vector<uint64_t> states;
  Silence quiet;
  h.res = sim::run(cfg, [&] {
    install_phase_observer();
    sim::set_on_decision([&] { states.push_back(sim::abstract_state()); });
    sim::set_on_uncaught([&](int task, const std::string &what) { h.uncaught = "task " + std::to_string(task) + ": " + what; });
    HApp app;
    h.exit_code = app.Exec((int)argv.size(), argv.data());
  });
  h.err = quiet.err.str();
  h.obs = sim::mutex_obs();
  h.probes = mon().probes;
  h.ended = mon().ended;
  std::sort(states.begin(), states.end());
  states.erase(std::unique(states.begin(), states.end()), states.end());
  h.states = std::move(states);
  return h;
}

std::string frames_str(std::vector<long> v) {
  std::string s = "[";
  for (size_t i = 0; i < v.size(); i++) s += (i ? "," : "") + std::to_string(v[i]);
  return s + "]";
}

struct Lib {
  using Plan = ::Plan;
  static const char *name() { return "c05_lib"; }
  static const char *property() { return "C05"; }
  static void setup(int, char **) {
    csg::TopReaderFactory().Register<SimTopReader>("simtop");
    csg::TrjReaderFactory().Register<SimTrjReader>("simtrj");
  }

  static Plan generate(uint64_t seed, long index, const std::string &tier) {
    sim::Rng r;
    r.seed(seed, (uint64_t)index * 2 + 1);
    Plan p;
    p.seed = seed;
    p.index = index;
    int maxN = 8;
    p.N = 1 + (int)r.below(maxN);
    if (r.chance(0.7)) p.N = std::max(2, p.N);
    // frame counts: 1, fewer than threads, equal, many
    switch (r.below(5)) {
      case 0: p.F = 1 + (int)r.below(2); break;
      case 1: p.F = std::max(1, p.N - 1 - (int)r.below(2)); break;
      case 2: p.F = p.N; break;
      default: p.F = 1 + (int)r.below((uint64_t)(3 * p.N + 2)); break;
    }
    if (tier == "thorough" && r.chance(0.1)) p.F += (int)r.below(40);
    std::vector<long> ff = {-1, -1, -1, 0, 1, 2, 3, p.F, p.F + 1, (long)r.below((uint64_t)p.F + 1)};
    p.first_frame = r.pick(ff);
    std::vector<long> nf = {-1, -1, -1, 0, 1, 2, std::max(0, p.N - 1), p.N, p.N + 1, p.F, p.F + 3, (long)r.below((uint64_t)p.F + 2)};
    p.nframes = r.pick(nf);
    p.ordered = r.chance(0.5);
    if (r.chance(0.2)) { std::vector<double> bs = {0.0, 1.5, 2.0, (double)p.F - 0.5, (double)p.F + 1.0, (double)r.below((uint64_t)p.F + 1) + 0.5}; p.begin = r.pick(bs); }
    p.eval_seed = r.next() >> 1;
    p.eval_max = (int)r.below(4);
    if (r.chance(0.15)) { p.slow_frame = 1 + (long)r.below((uint64_t)p.F); int ss[3] = {1, 40, 400}; p.slow_s = ss[r.below(3)]; }
    // fault: a damaged frame in the file / a frame whose analysis fails.  The exception leaves a worker thread; whatever
    // the 1-thread run makes of it (terminate on the tree as given), every other thread count must do the same - and not hang
    if (r.chance(0.06)) p.bad_frame = 1 + (long)r.below((uint64_t)p.F);
    else if (r.chance(0.06)) p.bad_eval = 1 + (long)r.below((uint64_t)p.F);
#if defined(SIM_SAN)
    // ASan's stack poisoning does not survive an exception that unwinds a ucontext coroutine (false stack-use-after-scope
    // reports): the throwing faults are injected in the plain configuration only
    p.bad_frame = p.bad_eval = -1;
#endif
    p.pick_strategy(r);
    return p;
  }

  static js::Value to_json(const Plan &p) {
    js::Value v = js::Value::obj();
    p.base_to_json(v);
    v.set("N", p.N).set("F", p.F).set("first_frame", p.first_frame).set("nframes", p.nframes).set("ordered", p.ordered)
     .set("eval_seed", (long long)p.eval_seed).set("eval_max", p.eval_max).set("begin", p.begin).set("slow_frame", p.slow_frame).set("slow_s", p.slow_s).set("bad_frame", p.bad_frame).set("bad_eval", p.bad_eval);
    return v;
  }
  static Plan from_json(const js::Value &v) {
    Plan p;
    p.base_from_json(v);
    p.N = (int)v.num("N", 2); p.F = (int)v.num("F", 1); p.first_frame = (long)v.num("first_frame", -1); p.nframes = (long)v.num("nframes", -1);
    p.ordered = v.at("ordered").b; p.eval_seed = (uint64_t)v.num("eval_seed", 0); p.eval_max = (int)v.num("eval_max", 0);
    p.begin = v.has("begin") ? v.at("begin").d : -1;
    p.slow_frame = (long)v.num("slow_frame", -1); p.slow_s = (int)v.num("slow_s", 0);
    p.bad_frame = (long)v.num("bad_frame", -1); p.bad_eval = (long)v.num("bad_eval", -1);
    return p;
  }

  static std::vector<Plan> simplify(const Plan &p) {
    std::vector<Plan> out;
    auto add = [&](Plan q) { out.push_back(q); };
    if (p.N > 2) { Plan q = p; q.N = 2; add(q); q = p; q.N = p.N - 1; add(q); }
    if (p.F > 1) { Plan q = p; q.F = std::max(1, p.F / 2); add(q); q = p; q.F = p.F - 1; add(q); }
    if (p.eval_max > 0) { Plan q = p; q.eval_max = 0; add(q); }
    if (p.first_frame > 0) { Plan q = p; q.first_frame = -1; add(q); q = p; q.first_frame = p.first_frame - 1; add(q); }
    if (p.first_frame == 0) { Plan q = p; q.first_frame = -1; add(q); }
    if (p.nframes > 1) { Plan q = p; q.nframes = p.nframes - 1; add(q); }
    if (p.nframes >= 0) { Plan q = p; q.nframes = -1; add(q); }
    if (p.begin >= 0) { Plan q = p; q.begin = -1; add(q); }
    if (p.slow_s > 0) { Plan q = p; q.slow_s = 0; q.slow_frame = -1; add(q); }
    if (p.strat_type != sim::Strategy::RW) { Plan q = p; q.strat_type = sim::Strategy::RW; add(q); }
    return out;
  }

  static sim::Report execute(const Plan &plan, const sim::SchedSpec &spec) {
    sim::Report rep;
    // reference: the same plan with one worker thread (no scheduling freedom that matters)
    History ref = run_once(plan, 1, sim::SchedSpec(), 1000000, true);
    if (ref.res.outcome != sim::RUN_OK) {
      rep.cls = "reference-run-failed";
      rep.detail = "the 1-thread reference run did not finish: outcome " + std::to_string(ref.res.outcome) + " " + ref.res.abort_class + " " + ref.res.abort_detail + ref.res.deadlock_graph;
      rep.key = rep.cls;
      return rep;
    }
    // a stalled evaluation lasts slow_s / 50 ms ticks; tasks that wait for it by polling (yield / sleep loops are legal)
    // spend a few steps per tick, so the budget grows with the injected stall
    long budget = 50 * ref.res.steps * std::max(1, plan.N) + 1000 + (plan.slow_s > 0 ? (long)plan.slow_s * 20 * 6 * std::max(1, plan.N) : 0);
    History h = run_once(plan, plan.N, spec, budget, false);
    rep.absorb(h.res);
    rep.decisions = h.res.decisions;
    rep.deviations = h.res.deviations;
    rep.trace = h.res.trace;
    rep.states = h.states;
    rep.diverged = h.res.outcome == sim::RUN_DIVERGED;
    for (auto &kv : h.probes) rep.counters["probe." + kv.first] += kv.second;
    rep.counters["obs.unlock_by_non_owner"] = h.obs.unlock_by_non_owner;
    rep.counters["obs.unlock_of_unlocked"] = h.obs.unlock_of_unlocked;
    rep.counters["obs.destroy_while_locked"] = h.obs.destroy_while_locked;
    if (plan.F < plan.N) rep.counters["probe.fewer_frames_than_threads"] = 1;
    if (h.res.max_blocked >= 3) rep.counters["probe.three_tasks_blocked"] = 1;
    if (h.probes.count("eof_seen") && h.probes["eof_seen"] >= 2) rep.counters["probe.eof_seen_by_two"] = 1;
    rep.counters[std::string("mode.") + (plan.ordered ? "ordered" : "unordered")] = 1;

    js::Value hist = js::Value::obj();
    js::Value ev = js::Value::arr();
    for (auto &e : h.evals) ev.push(js::Value::arr().push(e.first).push(e.second));
    hist.set("evals_worker_frame", ev).set("merged", js::Value::arr_of(h.merged)).set("exit_code", h.exit_code).set("stderr", h.err);
    hist.set("reference_merged", js::Value::arr_of(ref.merged)).set("reference_exit_code", ref.exit_code);
    rep.history = hist;

    auto fail = [&](const std::string &cls, const std::string &key, const std::string &detail) {
      if (rep.cls.empty()) { rep.cls = cls; rep.key = key; rep.detail = detail; }
    };
    const std::string mode = plan.ordered ? "ordered" : "unordered";
    switch (h.res.outcome) {
      case sim::RUN_DIVERGED: return rep;
      case sim::RUN_DEADLOCK: fail("deadlock", "deadlock:" + mode, h.res.deadlock_graph); return rep;
      case sim::RUN_BUDGET: fail("livelock", "livelock:" + mode, "step budget " + std::to_string(budget) + " exhausted"); return rep;
      case sim::RUN_ABORTED: fail(h.res.abort_class, h.res.abort_class + ":" + mode, h.res.abort_detail); return rep;
      default: break;
    }
    if (!ref.uncaught.empty()) {
      // the 1-thread run dies of an exception that leaves its worker thread (std::terminate): this run must die the same way
      if (h.uncaught.empty()) fail("outcome-differs", "outcome-differs:" + mode, "the 1-thread run is terminated by an uncaught exception (" + ref.uncaught + "), this run ended with exit code " + std::to_string(h.exit_code));
      else rep.counters["probe.terminated_like_the_reference"] = 1;
      return rep;
    }
    if (!h.uncaught.empty()) { fail("terminate", "terminate:" + mode, "uncaught exception in a worker thread: " + h.uncaught); return rep; }
    // 9: outcome class
    if (h.exit_code != ref.exit_code || h.err != ref.err) {
      fail("outcome-differs", "outcome-differs:" + mode, "exit code " + std::to_string(h.exit_code) + " / '" + h.err + "' vs reference " +
                                                           std::to_string(ref.exit_code) + " / '" + ref.err + "'");
      return rep;
    }
    // an injected error (damaged frame, failing analysis) that the code turns into an orderly error exit: the property
    // says nothing about how far the other workers get before the run stops; same outcome and no hang is all that is asked
    if (ref.exit_code != 0 && (plan.bad_frame > 0 || plan.bad_eval > 0)) { rep.counters["probe.error_exit_like_the_reference"] = 1; return rep; }
    // 7: multiset of evaluated frames
    std::vector<long> ef, rf;
    for (auto &e : h.evals) ef.push_back(e.second);
    for (auto &e : ref.evals) rf.push_back(e.second);
    std::vector<long> efs = ef, rfs = rf;
    std::sort(efs.begin(), efs.end());
    std::sort(rfs.begin(), rfs.end());
    if (efs != rfs) {
      std::vector<long> missing, extra;
      std::set_difference(rfs.begin(), rfs.end(), efs.begin(), efs.end(), std::back_inserter(missing));
      std::set_difference(efs.begin(), efs.end(), rfs.begin(), rfs.end(), std::back_inserter(extra));
      std::string shape = "other";
      if (!rfs.empty() && missing.size() == 1 && missing[0] == rfs.front() && extra.size() <= 1 &&
          (extra.empty() || extra[0] == rfs.back() + 1))
        shape = "first-selected-frame-skipped";
      fail("frames-differ", "frames-differ:" + mode + ":nframes=" + (plan.nframes >= 0 ? "set" : "unset") + ":" + shape,
           "evaluated " + frames_str(efs) + " but the 1-thread run evaluates " + frames_str(rfs));
      return rep;
    }
    // 8: merge
    if (plan.ordered) {
      if (h.merged != ref.merged) { fail("merge-order", "merge-order:" + mode, "merged " + frames_str(h.merged) + " but the 1-thread run merges " + frames_str(ref.merged)); return rep; }
    } else {
      std::vector<long> a = h.merged, b = ref.merged;
      std::sort(a.begin(), a.end());
      std::sort(b.begin(), b.end());
      if (a != b) { fail("merged-set", "merged-set:" + mode, "merged " + frames_str(a) + " but the 1-thread run merges " + frames_str(b)); return rep; }
    }
    if (h.ended != ref.ended) fail("end-evaluate", "end-evaluate:" + mode, std::string("EndEvaluate ") + (h.ended ? "was" : "was not") + " reached, unlike in the 1-thread run");
    return rep;
  }
};

}  // namespace

int main(int argc, char **argv) { return sim::Driver<Lib>::main(argc, argv); }
