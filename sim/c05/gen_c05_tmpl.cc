// Input generator for engine c05_tmpl: csg/share/template/template_threaded.cc (ordered mode).
#include "c05/c05_tool.h"

namespace c05tool {

const char *engine_name = "c05_tmpl";
const bool ordered = true;
const char *stdout_marker = nullptr;
const char *stdout_branch_marker = nullptr;
const double numeric_rel_tol = 0;
const bool exact_lattice_plans = false;
const double conditioning_gate = 1e-2;

void tool_generate(Plan &p, sim::Rng &r, const std::string &) { p.variant = (int)r.below(2); }

js::Value tool_variant_json(const Plan &p) {
  js::Value v = js::Value::obj();
  v.set("cutoff", p.variant ? 0.8 : 0.5);
  return v;
}

void tool_build(const Plan &p, Case &c) {
  double box = 1.7 + 0.1 * (double)(p.case_seed % 6);
  std::string topfile = add_topology(p, c, false, box);
  std::string trj = trj_file(p);
  c.files[trj] = gen_trajectory(p, box, p.nmol * p.chain);
  c.args = {"--top", "{IN}/" + topfile, "--trj", "{IN}/" + trj, "--c", p.variant ? "0.8" : "0.5"};
}

bool tool_numbers_comparable(const Plan &) { return true; }

}  // namespace c05tool
