// Input generator for engine c05_reupd: the real csg_reupdate (unordered mode).
#include "c05/c05_tool.h"

#include <sstream>

namespace c05tool {

const char *engine_name = "c05_reupd";
const bool ordered = false;
const char *stdout_marker = "Ensemble Avg Energy";
const char *stdout_branch_marker = "NOT a positive definite";
const double numeric_rel_tol = 0;   // written parameters are never compared numerically (ill-conditioned solve); lattice plans are compared byte for byte
const bool exact_lattice_plans = true;
const double conditioning_gate = 1e-5;

enum { V_TWO = 1, V_SIMPLE = 2 };

void tool_generate(Plan &p, sim::Rng &r, const std::string &) {
  p.variant = 0;
  if (r.chance(0.4)) p.variant |= V_TWO;
  if (r.chance(0.2)) p.variant |= V_SIMPLE;
  if (p.sparse_mask && r.chance(0.7)) p.chain = 1;  // single beads: a sparse frame then has an empty neighbour list
  if (r.chance(0.6)) {  // exact plans: see tool_build
    p.lattice = 1; p.chain = 1; p.fmt = 1; p.vol_jitter = 0; p.sparse_mask = 0; p.nmol = 4 + (int)r.below(13); if (p.F < 4 && r.chance(0.7)) p.F = 4 + (int)r.below(8); p.variant &= ~V_TWO;
  }
}

js::Value tool_variant_json(const Plan &p) {
  js::Value v = js::Value::obj();
  v.set("two_types", (p.variant & V_TWO) != 0).set("nbsearch_simple", (p.variant & V_SIMPLE) != 0).set("function", "lj126");
  return v;
}

static std::string inter(const char *name, const char *t1, const char *t2) {
  std::ostringstream o;
  o << " <non-bonded>\n  <name>" << name << "</name>\n  <type1>" << t1 << "</type1>\n  <type2>" << t2
    << "</type2>\n  <min>0.2</min>\n  <max>0.6</max>\n  <step>0.05</step>\n  <re><function>lj126</function></re>\n </non-bonded>\n";
  return o.str();
}

static std::string rdf_target() {
  std::ostringstream o;
  for (int i = 0; i <= 8; i++) o << fmt_double(0.2 + 0.05 * i) << " " << fmt_double(0.3 + 0.1 * i) << " i\n";
  return o.str();
}

void tool_build(const Plan &p, Case &c) {
  bool two = (p.variant & V_TWO) && p.chain >= 2;
  double box = p.lattice ? 2.0 : 1.7 + 0.1 * (double)(p.case_seed % 6);
  std::string topfile = add_topology(p, c, two, box);
  std::string trj = trj_file(p);
  c.files[trj] = gen_trajectory(p, box, p.nmol * p.chain);
  std::ostringstream o;
  o << "<cg>\n";
  if (p.variant & V_SIMPLE) o << " <nbsearch>simple</nbsearch>\n";
  o << inter("A-A", "A", "A");
  if (two) o << inter("A-B", "A", "B");
  // lattice plans: kBT = 2 makes beta = 0.5 and beta^2 = 0.25 exact, pair distances are exactly 0.25 or 0.5 nm, so r^-6 is
  // 4096 or 64 and r^-12 is 2^24 or 4096 and every per-frame derivative is an integer with few significant bits: DS_ and HS_ are sums of exactly representable numbers,
  // independent of the order in which frames and workers are added up, and the written files must be byte-identical
  o << " <inverse>\n  <kBT>" << (p.lattice ? "2" : "2.4942") << "</kBT>\n  <scale>0.5</scale>\n </inverse>\n</cg>\n";
  c.files["settings.xml"] = o.str();
  c.cwd_files["A-A.dist.tgt"] = rdf_target();
  c.cwd_files["A-A.param.cur"] = "0 0.0001 i\n1 0.01 i\n";
  if (two) {
    c.cwd_files["A-B.dist.tgt"] = rdf_target();
    c.cwd_files["A-B.param.cur"] = "0 0.0002 i\n1 0.02 i\n";
  }
  c.args = {"--top", "{IN}/" + topfile, "--trj", "{IN}/" + trj, "--options", "{IN}/settings.xml", "--hessian-check", "no"};
}

// csg_reupdate solves H dl = -DS by a Cholesky factorisation, where H is the covariance of the parameter
// derivatives over the selected frames, and a positive-definiteness test chooses between the Newton step and
// the steepest-descent step.  With fewer frames than parameters + 2 the matrix is singular by construction and
// the written parameters are decided by rounding noise (pivots of a few ulps), so they are not compared then;
// otherwise they are compared to 1e-6 when the perturbed reference moves them by less than 1e-5 and both runs
// took the same branch.  Outcome, file set and the printed ensemble averages are compared always.
bool tool_numbers_comparable(const Plan &p) {
  bool two = (p.variant & V_TWO) && p.chain >= 2;
  long nparams = two ? 4 : 2;
  return selected_frames(p) >= nparams + 2;
}

}  // namespace c05tool
