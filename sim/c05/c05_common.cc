#include "c05/c05_common.h"

namespace c05 {

static Monitors g_mon;
Monitors &mon() { return g_mon; }

void Section::enter(int point_kind) {
  if (inside != -1 && inside != sim::self()) {
    sim::abort_run(std::string(name) + "-overlap",
                   "task " + std::to_string(sim::self()) + " entered the " + name + " while task " + std::to_string(inside) + " was inside");
  }
  inside = sim::self();
  entries++;
  sim::point(point_kind, 0);  // let every other task run while this one is inside
}

void Section::leave(int point_kind) {
  sim::point(point_kind, 0);
  if (inside != sim::self()) {
    sim::abort_run(std::string(name) + "-overlap", "task " + std::to_string(sim::self()) + " left the " + name + " but task " +
                                                       std::to_string(inside) + " is registered inside");
  }
  inside = -1;
}

void install_phase_observer() {
  sim::set_mutex_observer([](int op, long index, int) {
    if (op == 0) {
      // role of the mutex by creation order: 0,1 = application members
      // (frame counter, reader), then alternating input / output ring, see CsgApplication::Run
      long role = index < 2 ? index : 2 + (index - 2) % 2;
      sim::set_phase((int)(PH_WAIT_BASE + role));
    } else if (op == 1) {
      sim::set_phase(PH_IDLE);
    }
  });
}

}  // namespace c05
