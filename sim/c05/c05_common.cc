#include "c05/c05_common.h"

namespace c05 {

static Monitors g_mon;
Monitors &mon() { return g_mon; }

void Section::enter(int point_kind) {
  if (inside != -1 && inside != sim::self()) {
    sim::abort_run(std::string(name) + "-overlap",
                   "task " + std::to_string(sim::self()) + " entered the " + name + " while task " + std::to_string(inside) + " was inside");
  }
  inside = sim::self();
  entries++;
  sim::point(point_kind, 0);  // let every other task run while this one is inside
}

void Section::leave(int point_kind) {
  sim::point(point_kind, 0);
  if (inside != sim::self()) {
    sim::abort_run(std::string(name) + "-overlap", "task " + std::to_string(sim::self()) + " left the " + name + " but task " +
                                                       std::to_string(inside) + " is registered inside");
  }
  inside = -1;
}

static std::vector<char> g_evaluating;
void mark_evaluating(int task, bool on) {
  if (task < 0) return;
  if ((size_t)task >= g_evaluating.size()) g_evaluating.resize((size_t)task + 8, 0);
  g_evaluating[(size_t)task] = on;
}
bool is_evaluating(int task) { return task >= 0 && (size_t)task < g_evaluating.size() && g_evaluating[(size_t)task]; }

void install_phase_observer() {
  g_evaluating.assign(64, 0);
  sim::set_mutex_observer([](int op, long index, int task) {
    if (op == 0) {
      mark_evaluating(task, false);
      // role of the mutex by creation order: 0,1 = application members
      // (frame counter, reader), then alternating input / output ring, see CsgApplication::Run
      long role = index < 2 ? index : 2 + (index - 2) % 2;
      sim::set_phase((int)(PH_WAIT_BASE + role));
    } else if (op == 1) {
      sim::set_phase(PH_IDLE);
    }
  });
}

}  // namespace c05
