// Shared by the C05 engines: monitors for the trajectory reader and the merge
// step, output silencing, phases for the reach measure.
#pragma once
#include "core/sim.h"
#include "core/wrap_pthread.h"

#include <iostream>
#include <map>
#include <sstream>
#include <string>
#include <vector>

namespace c05 {

enum UserKind {
  U_READER_IN = sim::K_USER + 0,   // inside the reader, before the frame is taken
  U_READER_OUT = sim::K_USER + 1,  // inside the reader, after the frame is taken
  U_EVAL = sim::K_USER + 2,        // inside EvalConfiguration
  U_MERGE = sim::K_USER + 3,       // inside MergeWorker
  U_BEGIN = sim::K_USER + 4,
  U_END = sim::K_USER + 5,
  U_FRAME = sim::K_USER + 6,       // event: frame delivered
  U_EVALFRAME = sim::K_USER + 7,   // event: frame evaluated
  U_MERGED = sim::K_USER + 8       // event: frame merged
};

enum Phase { PH_IDLE = 0, PH_READING = 1, PH_EVAL = 2, PH_MERGING = 3, PH_WAIT_BASE = 10 };

// One section that at most one task may be inside of (reader / merge step).
// enter() contains a decision point *inside* the section, so an unprotected
// section is really overlapped by some schedule.
struct Section {
  const char *name;
  int inside = -1;
  long entries = 0;
  explicit Section(const char *n) : name(n) {}
  void reset() { inside = -1; entries = 0; }
  void enter(int point_kind);
  void leave(int point_kind);
};

struct Monitors {
  Section reader{"reader"};
  Section merge{"merge"};
  std::vector<long> delivered;   // frames that left the reader, in order
  bool begun = false, ended = false;
  int first_reader_task = -2;    // task that entered the reader first after the workers started
  std::map<std::string, long> probes;
  void reset() { reader.reset(); merge.reset(); delivered.clear(); begun = ended = false; first_reader_task = -2; probes.clear(); }
};
Monitors &mon();

// silence (or capture) std::cout and capture std::cerr for the duration of a run
struct Silence {
  std::streambuf *old_out, *old_err;
  std::ostringstream err, out;
  struct NullBuf : std::streambuf { int overflow(int c) override { return c; } std::streamsize xsputn(const char *, std::streamsize n) override { return n; } } nb;
  explicit Silence(bool capture_out = false) {
    old_out = std::cout.rdbuf(capture_out ? out.rdbuf() : static_cast<std::streambuf *>(&nb));
    old_err = std::cerr.rdbuf(err.rdbuf());
  }
  ~Silence() { std::cout.rdbuf(old_out); std::cerr.rdbuf(old_err); }
};

// mutex observer that turns lock requests into "waiting" phases (and ends the "evaluating" state of a task)
void install_phase_observer();
// a worker task is "evaluating" from the moment it leaves the trajectory reader until its next mutex operation
void mark_evaluating(int task, bool on);
bool is_evaluating(int task);

}  // namespace c05
